//! Replay / counterexample search on the REAL rsbdd code (DESIGN §3.5).
//!
//! This program never decides a property.  It is run only after Verus has failed to discharge an
//! obligation, to look for a concrete input on which the real code disagrees with an executable
//! reading of the same clause (truth tables for diagrams, an independent evaluator for formulas, an
//! independent recursive-descent parser for token sequences).
//!
//!   replay search <mode> <budget> <seed>     first disagreement as one JSON line, exit 1; none: exit 0
//!   replay case   <mode> <case>              re-run one case (used by `./check replay <file>`)
//!
//! modes: ops quant count model retain fp formula parse lex index
use std::collections::BTreeMap;
use std::panic::{catch_unwind, AssertUnwindSafe};
use std::rc::Rc;

use rsbdd::bdd::{BDDEnv, BDD};
use rsbdd::parser::{
    BinaryOperator, CountableOperator, ParsedFormula, QuantifierType, SymbolicBDD, SymbolicBDDToken,
};
use rsbdd::{NamedSymbol, TruthTableEntry};

type B = Rc<BDD<usize>>;
type E = BDDEnv<usize>;

static CHECKED: std::sync::atomic::AtomicUsize = std::sync::atomic::AtomicUsize::new(0);
fn tick() { CHECKED.fetch_add(1, std::sync::atomic::Ordering::Relaxed); }

struct Fail {
    case: String,
    expected: String,
    actual: String,
}

/// which kinds of disagreement the caller asked for (env REPLAY_ASPECT = comma list of panic, sem, shape, vars, accept;
/// unset = all): a bounded stand-in run for a property reports only what that property is about
fn want(aspect: &str) -> bool {
    match std::env::var("REPLAY_ASPECT") {
        Ok(v) if !v.is_empty() => v.split(',').any(|a| a == aspect),
        _ => true,
    }
}

fn quiet<T>(f: impl FnOnce() -> T) -> Result<T, String> {
    catch_unwind(AssertUnwindSafe(f)).map_err(|e| {
        if let Some(s) = e.downcast_ref::<String>() {
            format!("panic: {s}")
        } else if let Some(s) = e.downcast_ref::<&str>() {
            format!("panic: {s}")
        } else {
            "panic".to_string()
        }
    })
}

// ------------------------------------------------------------------ diagrams over a fixed id list

/// build the canonical diagram of truth table `tt` over variables ids[k..] using only mk_choice / mk_const
fn build(env: &E, ids: &[usize], tt: &[bool]) -> B {
    if ids.is_empty() {
        return env.mk_const(tt[0]);
    }
    let half = tt.len() / 2;
    // first variable = most significant bit: tt[0..half] has it false, tt[half..] true
    let f = build(env, &ids[1..], &tt[..half]);
    let t = build(env, &ids[1..], &tt[half..]);
    env.mk_choice(t, ids[0], f)
}

/// the first `rows` bits of n as a truth table
fn tt_of_u(n: u32, rows: usize) -> Vec<bool> {
    (0..rows).map(|i| (n >> i) & 1 == 1).collect()
}

fn eval_bdd(b: &BDD<usize>, asg: &dyn Fn(usize) -> bool) -> bool {
    match b {
        BDD::False => false,
        BDD::True => true,
        BDD::Choice(t, v, f) => {
            if asg(*v) {
                eval_bdd(t, asg)
            } else {
                eval_bdd(f, asg)
            }
        }
    }
}

/// truth table of b over `ids` (same bit order as `build`)
fn table(b: &BDD<usize>, ids: &[usize]) -> Vec<bool> {
    let n = ids.len();
    (0..(1usize << n))
        .map(|row| {
            eval_bdd(b, &|v| {
                ids.iter()
                    .position(|x| *x == v)
                    .map(|p| (row >> (n - 1 - p)) & 1 == 1)
                    .unwrap_or(false)
            })
        })
        .collect()
}

fn robdd(b: &BDD<usize>, lo: Option<usize>) -> bool {
    match b {
        BDD::False | BDD::True => true,
        BDD::Choice(t, v, f) => {
            lo.map_or(true, |l| *v > l) && t.as_ref() != f.as_ref() && robdd(t, Some(*v)) && robdd(f, Some(*v))
        }
    }
}

fn support(b: &BDD<usize>, out: &mut Vec<usize>) {
    if let BDD::Choice(t, v, f) = b {
        if !out.contains(v) {
            out.push(*v);
        }
        support(t, out);
        support(f, out);
    }
}

fn show(b: &BDD<usize>) -> String {
    match b {
        BDD::False => "F".into(),
        BDD::True => "T".into(),
        BDD::Choice(t, v, f) => format!("({} ?{} {})", show(t), v, show(f)),
    }
}

fn tts(t: &[bool]) -> String {
    t.iter().map(|b| if *b { '1' } else { '0' }).collect()
}

fn parse_tt(s: &str) -> Vec<bool> {
    s.chars().map(|c| c == '1').collect()
}

fn parse_ids(s: &str) -> Vec<usize> {
    if s.is_empty() {
        vec![]
    } else {
        s.split(',').map(|x| x.parse().unwrap()).collect()
    }
}

fn ids_s(v: &[usize]) -> String {
    v.iter().map(|x| x.to_string()).collect::<Vec<_>>().join(",")
}

/// compare result with the expected truth table; also orderedness / reducedness and literal identity
fn judge(case: String, res: Result<B, String>, env: &E, ids: &[usize], want: &[bool]) -> Option<Fail> {
    tick();
    match res {
        Err(p) => Some(Fail { case, expected: format!("tt={}", tts(want)), actual: p }),
        Ok(r) => {
            let got = table(&r, ids);
            if got != want {
                return Some(Fail { case, expected: format!("tt={}", tts(want)), actual: format!("tt={} diagram={}", tts(&got), show(&r)) });
            }
            let mut sup = vec![];
            support(&r, &mut sup);
            if sup.iter().any(|v| !ids.contains(v)) {
                return Some(Fail { case, expected: format!("support within {ids:?}"), actual: format!("diagram={}", show(&r)) });
            }
            if !robdd(&r, None) {
                return Some(Fail { case, expected: "ordered and reduced diagram".into(), actual: format!("diagram={}", show(&r)) });
            }
            let canon = build(env, ids, want);
            if canon.as_ref() != r.as_ref() {
                return Some(Fail { case, expected: format!("canonical {}", show(&canon)), actual: format!("diagram={}", show(&r)) });
            }
            None
        }
    }
}

// ------------------------------------------------------------------ mode: ops

const OPS2: [&str; 7] = ["and", "or", "xor", "eq", "implies", "nor", "nand"];

fn op2(name: &str, a: bool, b: bool) -> bool {
    match name {
        "and" => a && b,
        "or" => a || b,
        "xor" => a != b,
        "eq" => a == b,
        "implies" => !a || b,
        "nor" => !(a || b),
        "nand" => !(a && b),
        _ => unreachable!(),
    }
}

/// case: op|foreign(0/1)|ids|tta|ttb|ttc
fn case_ops(case: &str) -> Option<Fail> {
    let p: Vec<&str> = case.split('|').collect();
    let (op, foreign, ids) = (p[0], p[1] == "1", parse_ids(p[2]));
    let env = E::new();
    let other = E::new();
    let src = if foreign { &other } else { &env };
    if op == "var" {
        let v = ids[0];
        return judge(case.into(), quiet(|| env.var(v)), &env, &[v], &[false, true]);
    }
    let ta = parse_tt(p[3]);
    let a = build(src, &ids, &ta);
    let keep_a = a.as_ref().clone();
    let out = match op {
        "not" => {
            let want: Vec<bool> = ta.iter().map(|x| !x).collect();
            judge(case.into(), quiet(|| env.not(a.clone())), &env, &ids, &want)
        }
        "ite" => {
            let tb = parse_tt(p[4]);
            let tc = parse_tt(p[5]);
            let b = build(src, &ids, &tb);
            let c = build(src, &ids, &tc);
            let want: Vec<bool> = (0..ta.len()).map(|i| if ta[i] { tb[i] } else { tc[i] }).collect();
            judge(case.into(), quiet(|| env.ite(a.clone(), b, c)), &env, &ids, &want)
        }
        "var" => {
            let v = ids[0];
            let want = vec![false, true];
            judge(case.into(), quiet(|| env.var(v)), &env, &[v], &want)
        }
        _ => {
            let tb = parse_tt(p[4]);
            let b = build(src, &ids, &tb);
            let want: Vec<bool> = (0..ta.len()).map(|i| op2(op, ta[i], tb[i])).collect();
            let r = quiet(|| match op {
                "and" => env.and(a.clone(), b),
                "or" => env.or(a.clone(), b),
                "xor" => env.xor(a.clone(), b),
                "eq" => env.eq(a.clone(), b),
                "implies" => env.implies(a.clone(), b),
                "nor" => env.nor(a.clone(), b),
                "nand" => env.nand(a.clone(), b),
                _ => unreachable!(),
            });
            judge(case.into(), r, &env, &ids, &want)
        }
    };
    if out.is_none() && keep_a != *a.as_ref() {
        return Some(Fail { case: case.into(), expected: "operand unchanged".into(), actual: show(&a) });
    }
    out
}

fn search_ops(budget: usize, seed: u64) -> Option<Fail> {
    let mut rng = Rng(seed);
    let mut n = 0usize;
    for ids in [vec![1usize, 3, 5], vec![0, 1, 2]] {
        for foreign in ["0", "1"] {
            for a in 0..256u32 {
                let c = format!("not|{foreign}|{}|{}", ids_s(&ids), tts(&tt_of_u(a, 8)));
                if let Some(f) = case_ops(&c) {
                    return Some(f);
                }
            }
            for op in OPS2 {
                for a in 0..256u32 {
                    for b in 0..256u32 {
                        if budget < 200_000 && (a * 31 + b * 17 + n as u32) % 4 != 0 {
                            continue;
                        }
                        n += 1;
                        let c = format!("{op}|{foreign}|{}|{}|{}", ids_s(&ids), tts(&tt_of_u(a, 8)), tts(&tt_of_u(b, 8)));
                        if let Some(f) = case_ops(&c) {
                            return Some(f);
                        }
                    }
                }
            }
            for _ in 0..(budget / 10).max(2000) {
                let (a, b, c3) = (rng.next() as u32 & 255, rng.next() as u32 & 255, rng.next() as u32 & 255);
                let c = format!("ite|{foreign}|{}|{}|{}|{}", ids_s(&ids), tts(&tt_of_u(a, 8)), tts(&tt_of_u(b, 8)), tts(&tt_of_u(c3, 8)));
                if let Some(f) = case_ops(&c) {
                    return Some(f);
                }
            }
        }
    }
    for v in [0usize, 7, 1000] {
        if let Some(f) = case_ops(&format!("var|0|{v}|0")) {
            return Some(f);
        }
    }
    None
}

// ------------------------------------------------------------------ mode: quant

/// case: exists|all | foreign | ids | tt | list
fn case_quant(case: &str) -> Option<Fail> {
    let p: Vec<&str> = case.split('|').collect();
    let (q, foreign, ids, tt, list) = (p[0], p[1] == "1", parse_ids(p[2]), parse_tt(p[3]), parse_ids(p[4]));
    let env = E::new();
    let other = E::new();
    let f = build(if foreign { &other } else { &env }, &ids, &tt);
    let n = ids.len();
    let want: Vec<bool> = (0..tt.len())
        .map(|row| {
            // rows that agree with `row` outside the listed variables
            let free: Vec<usize> = (0..n).filter(|p| !list.contains(&ids[*p])).collect();
            let mut any = false;
            let mut all = true;
            for r2 in 0..tt.len() {
                if free.iter().all(|p| ((row >> (n - 1 - p)) & 1) == ((r2 >> (n - 1 - p)) & 1)) {
                    any |= tt[r2];
                    all &= tt[r2];
                }
            }
            if q == "exists" { any } else { all }
        })
        .collect();
    let r = quiet(|| if q == "exists" { env.exists(list.clone(), f.clone()) } else { env.all(list.clone(), f.clone()) });
    judge(case.into(), r, &env, &ids, &want)
}

fn search_quant(_budget: usize, _seed: u64) -> Option<Fail> {
    let pool = [0usize, 1, 2, 3, 5, 6];
    let mut lists: Vec<Vec<usize>> = vec![vec![]];
    for a in pool {
        lists.push(vec![a]);
        for b in pool {
            lists.push(vec![a, b]);
        }
    }
    lists.push(vec![5, 3, 1]);
    lists.push(vec![1, 5, 1]);
    lists.push(vec![6, 0, 3]);
    // a repeated variable FOLLOWED by further variables of the support (and the same at the end)
    for l in [vec![1usize, 3, 1, 5], vec![5, 5, 1], vec![3, 1, 3], vec![1, 1, 3, 5], vec![5, 1, 3, 5, 1], vec![3, 5, 5, 1], vec![0, 1, 0, 3]] {
        lists.push(l);
    }
    for ids in [vec![1usize, 3, 5]] {
        for foreign in ["0", "1"] {
            for q in ["exists", "all"] {
                for tt in 0..256u32 {
                    for l in &lists {
                        let c = format!("{q}|{foreign}|{}|{}|{}", ids_s(&ids), tts(&tt_of_u(tt, 8)), ids_s(l));
                        if let Some(f) = case_quant(&c) {
                            return Some(f);
                        }
                    }
                }
            }
        }
    }
    None
}

// ------------------------------------------------------------------ mode: count

/// case: kind | n | ids | tt;tt;..  [| tt;tt;.. second list]
fn case_count(case: &str) -> Option<Fail> {
    let p: Vec<&str> = case.split('|').collect();
    let kind = p[0];
    let n: i64 = p[1].parse().unwrap();
    let ids = parse_ids(p[2]);
    let env = E::new();
    let la: Vec<Vec<bool>> = p[3].split(';').filter(|s| !s.is_empty()).map(parse_tt).collect();
    let lb: Vec<Vec<bool>> = if p.len() > 4 { p[4].split(';').filter(|s| !s.is_empty()).map(parse_tt).collect() } else { vec![] };
    let a: Vec<B> = la.iter().map(|t| build(&env, &ids, t)).collect();
    let b: Vec<B> = lb.iter().map(|t| build(&env, &ids, t)).collect();
    let rows = 1usize << ids.len();
    let want: Vec<bool> = (0..rows)
        .map(|r| {
            let ca = la.iter().filter(|t| t[r]).count() as i64;
            let cb = lb.iter().filter(|t| t[r]).count() as i64;
            match kind {
                "aln" => ca >= n,
                "amn" => ca <= n,
                "exn" => ca == n,
                "count_leq" => ca <= cb,
                "count_lt" => ca < cb,
                "count_geq" => ca >= cb,
                "count_gt" => ca > cb,
                "count_eq" => ca == cb,
                _ => unreachable!(),
            }
        })
        .collect();
    let r = quiet(|| match kind {
        "aln" => env.aln(&a, n),
        "amn" => env.amn(&a, n),
        "exn" => env.exn(&a, n),
        "count_leq" => env.count_leq(&a, &b),
        "count_lt" => env.count_lt(&a, &b),
        "count_geq" => env.count_geq(&a, &b),
        "count_gt" => env.count_gt(&a, &b),
        "count_eq" => env.count_eq(&a, &b),
        _ => unreachable!(),
    });
    judge(case.into(), r, &env, &ids, &want)
}

fn search_count(budget: usize, seed: u64) -> Option<Fail> {
    let ids = vec![1usize, 3];
    let f16: Vec<String> = (0..16u32).map(|t| tts(&tt_of_u(t, 4))).collect();
    let mut lists: Vec<Vec<String>> = vec![vec![]];
    for a in &f16 {
        lists.push(vec![a.clone()]);
        for b in &f16 {
            lists.push(vec![a.clone(), b.clone()]);
        }
    }
    let mut rng = Rng(seed);
    let mut l3 = vec![];
    for _ in 0..(budget / 50).max(300) {
        l3.push((0..3).map(|_| f16[(rng.next() % 16) as usize].clone()).collect::<Vec<_>>());
    }
    for kind in ["aln", "amn", "exn"] {
        for l in lists.iter().chain(l3.iter()) {
            for n in [-2i64, -1, 0, 1, 2, 3, 4, i64::MAX, i64::MIN + 8] {
                let c = format!("{kind}|{n}|{}|{}", ids_s(&ids), l.join(";"));
                if let Some(f) = case_count(&c) {
                    return Some(f);
                }
            }
        }
    }
    for kind in ["count_leq", "count_lt", "count_geq", "count_gt", "count_eq"] {
        for (i, la) in lists.iter().enumerate() {
            for (j, lb) in lists.iter().enumerate() {
                if (i * 7 + j * 13) % 5 != 0 && la.len() + lb.len() > 2 {
                    continue;
                }
                let c = format!("{kind}|0|{}|{}|{}", ids_s(&ids), la.join(";"), lb.join(";"));
                if let Some(f) = case_count(&c) {
                    return Some(f);
                }
            }
        }
    }
    None
}

// ------------------------------------------------------------------ mode: model / infer

fn is_cube(b: &BDD<usize>) -> bool {
    match b {
        BDD::True => true,
        BDD::False => false,
        BDD::Choice(t, _, f) => (**f == BDD::False && is_cube(t)) || (**t == BDD::False && is_cube(f)),
    }
}

/// case: foreign | ids | tt
fn case_model(case: &str) -> Option<Fail> {
    let p: Vec<&str> = case.split('|').collect();
    let (foreign, ids, tt) = (p[0] == "1", parse_ids(p[1]), parse_tt(p[2]));
    let env = E::new();
    let other = E::new();
    let f = build(if foreign { &other } else { &env }, &ids, &tt);
    let m = match quiet(|| env.model(f.clone())) {
        Err(pn) => return Some(Fail { case: case.into(), expected: "a model".into(), actual: pn }),
        Ok(m) => m,
    };
    tick();
    let sat = tt.iter().any(|x| *x);
    let mt = table(&m, &ids);
    let bad = |exp: &str| Some(Fail { case: case.into(), expected: exp.into(), actual: format!("model={}", show(&m)) });
    if (*m == BDD::False) != !sat {
        return bad("false leaf iff unsatisfiable");
    }
    if sat {
        if !is_cube(&m) {
            return bad("a single conjunction of literals (cube)");
        }
        if (0..tt.len()).any(|i| mt[i] && !tt[i]) {
            return bad("every assignment satisfying the model satisfies f");
        }
        let mut sf = vec![];
        support(&f, &mut sf);
        let mut sm = vec![];
        support(&m, &mut sm);
        if sm.iter().any(|v| !sf.contains(v)) {
            return bad("model mentions only variables of f");
        }
        if !robdd(&m, None) {
            return bad("ordered and reduced model");
        }
    }
    // infer on the model and on f itself, for every id around the support
    for (name, g, gt) in [("model", &m, &mt), ("f", &f, &tt)] {
        for v in 0..7usize {
            let r = match quiet(|| env.infer(Rc::clone(g), v)) {
                Err(pn) => return Some(Fail { case: format!("{case}|infer {name} {v}"), expected: "a verdict".into(), actual: pn }),
                Ok(r) => r,
            };
            let pos = ids.iter().position(|x| *x == v);
            let n = ids.len();
            let forced = (0..gt.len()).all(|row| !gt[row] || pos.map_or(false, |p| (row >> (n - 1 - p)) & 1 == 1));
            if (r == (true, true)) != forced {
                return Some(Fail { case: format!("{case}|infer {name} {v}"), expected: format!("(true,true) iff forced; forced={forced}"), actual: format!("{r:?} on {}", show(g)) });
            }
        }
    }
    None
}

fn search_model(_b: usize, _s: u64) -> Option<Fail> {
    for ids in [vec![1usize, 3, 5], vec![0, 2, 4]] {
        for foreign in ["0", "1"] {
            for tt in 0..256u32 {
                if let Some(f) = case_model(&format!("{foreign}|{}|{}", ids_s(&ids), tts(&tt_of_u(tt, 8)))) {
                    return Some(f);
                }
            }
        }
    }
    None
}

// ------------------------------------------------------------------ mode: retain

fn check_retain(env: &E, case: &str, ids: &[usize], tt: &[bool], filter: TruthTableEntry) -> Option<Fail> {
    let f = build(env, ids, tt);
    let r = match quiet(|| env.retain_choice_bottom_up(f.clone(), filter)) {
        Err(pn) => return Some(Fail { case: case.into(), expected: "a diagram".into(), actual: pn }),
        Ok(r) => r,
    };
    tick();
    let rt = table(&r, ids);
    let bad = |exp: &str| Some(Fail { case: case.into(), expected: exp.into(), actual: format!("result={} of {}", show(&r), show(&f)) });
    match filter {
        TruthTableEntry::Any => {
            if *r != *f {
                return bad("the source itself");
            }
        }
        TruthTableEntry::True => {
            if (0..tt.len()).any(|i| tt[i] && !rt[i]) {
                return bad("implied by the source");
            }
        }
        TruthTableEntry::False => {
            if (0..tt.len()).any(|i| rt[i] && !tt[i]) {
                return bad("implies the source");
            }
        }
    }
    if !robdd(&r, None) {
        return bad("ordered and reduced");
    }
    let (mut sf, mut sr) = (vec![], vec![]);
    support(&f, &mut sf);
    support(&r, &mut sr);
    if sr.iter().any(|v| !sf.contains(v)) {
        return bad("no new variables");
    }
    None
}

fn filt(s: &str) -> TruthTableEntry {
    match s {
        "T" => TruthTableEntry::True,
        "F" => TruthTableEntry::False,
        _ => TruthTableEntry::Any,
    }
}

/// case: ids | (filter:tt);(filter:tt);..   a sequence of calls on ONE environment
fn case_retain(case: &str) -> Option<Fail> {
    let p: Vec<&str> = case.split('|').collect();
    let ids = parse_ids(p[0]);
    let env = E::new();
    for step in p[1].split(';') {
        let (fl, tt) = step.split_once(':').unwrap();
        if let Some(f) = check_retain(&env, case, &ids, &parse_tt(tt), filt(fl)) {
            return Some(f);
        }
    }
    None
}

fn search_retain(budget: usize, seed: u64) -> Option<Fail> {
    let ids = vec![1usize, 3, 5];
    for fl in ["T", "F", "A"] {
        for tt in 0..256u32 {
            if let Some(f) = case_retain(&format!("{}|{fl}:{}", ids_s(&ids), tts(&tt_of_u(tt, 8)))) {
                return Some(f);
            }
        }
    }
    // sequences sharing one environment (history dependence)
    let mut rng = Rng(seed);
    for _ in 0..(budget / 20).max(500) {
        let steps: Vec<String> = (0..3)
            .map(|_| format!("{}:{}", ["T", "F", "A"][(rng.next() % 3) as usize], tts(&tt_of_u(rng.next() as u32 & 255, 8))))
            .collect();
        if let Some(f) = case_retain(&format!("{}|{}", ids_s(&ids), steps.join(";"))) {
            return Some(f);
        }
    }
    // same function, opposite filters, one environment
    for tt in 0..256u32 {
        let t = tts(&tt_of_u(tt, 8));
        for (a, b) in [("T", "F"), ("F", "T")] {
            if let Some(f) = case_retain(&format!("{}|{a}:{t};{b}:{t}", ids_s(&ids))) {
                return Some(f);
            }
        }
    }
    None
}

// ------------------------------------------------------------------ mode: fp

/// case: ids | tt_start | tt_g | kind     t(x) = x or g / x and g / g
fn case_fp(case: &str) -> Option<Fail> {
    let p: Vec<&str> = case.split('|').collect();
    let ids = parse_ids(p[0]);
    let env = E::new();
    let a = build(&env, &ids, &parse_tt(p[1]));
    let g = build(&env, &ids, &parse_tt(p[2]));
    let kind = p[3].to_string();
    let calls = std::cell::RefCell::new(Vec::<B>::new());
    let t = |x: B| -> B {
        calls.borrow_mut().push(x.clone());
        match kind.as_str() {
            "or" => env.or(x, g.clone()),
            "and" => env.and(x, g.clone()),
            _ => g.clone(),
        }
    };
    tick();
    let r = match quiet(|| env.fp(a.clone(), &t)) {
        Err(pn) => return Some(Fail { case: case.into(), expected: "a fixed point".into(), actual: pn }),
        Ok(r) => r,
    };
    // reference: iterate by hand
    let mut s = a.clone();
    let mut guard = 0;
    loop {
        let n = match kind.as_str() {
            "or" => env.or(s.clone(), g.clone()),
            "and" => env.and(s.clone(), g.clone()),
            _ => g.clone(),
        };
        if n == s {
            break;
        }
        s = n;
        guard += 1;
        if guard > 64 {
            return None;
        }
    }
    if *r != *s {
        return Some(Fail { case: case.into(), expected: format!("first stable iterate {}", show(&s)), actual: show(&r) });
    }
    None
}

fn search_fp(budget: usize, seed: u64) -> Option<Fail> {
    let mut rng = Rng(seed);
    let ids = vec![1usize, 3, 5];
    for _ in 0..(budget / 10).max(1000) {
        let c = format!("{}|{}|{}|{}", ids_s(&ids), tts(&tt_of_u(rng.next() as u32 & 255, 8)), tts(&tt_of_u(rng.next() as u32 & 255, 8)), ["or", "and", "const"][(rng.next() % 3) as usize]);
        if let Some(f) = case_fp(&c) {
            return Some(f);
        }
    }
    None
}

// ------------------------------------------------------------------ mode: history (C13)

fn apply_op(env: &E, op: usize, a: B, b: B, c: B, ids: &[usize]) -> B {
    match op % 12 {
        0 => env.and(a, b),
        1 => env.or(a, b),
        2 => env.not(a),
        3 => env.xor(a, b),
        4 => env.ite(a, b, c),
        5 => env.exists(vec![ids[op / 12 % ids.len()]], a),
        6 => env.all(vec![ids[op / 12 % ids.len()], ids[0]], a),
        7 => env.aln(&[a, b, c], (op / 12 % 4) as i64),
        8 => env.model(a),
        9 => env.retain_choice_bottom_up(a, if op / 12 % 2 == 0 { TruthTableEntry::True } else { TruthTableEntry::False }),
        10 => env.clean(a),
        _ => env.eq(a, b),
    }
}

/// case: ids | seed | steps | drop(0/1)     one environment, a growing pool of results; every result must equal the one a
/// fresh environment computes from the same operands, every earlier result must still denote the same function, and the
/// leaves must stay available.  drop=1: nothing but a constant is kept alive before `clean` is called.
fn case_history(case: &str) -> Option<Fail> {
    let p: Vec<&str> = case.split('|').collect();
    let ids = parse_ids(p[0]);
    let mut rng = Rng(p[1].parse::<u64>().unwrap() | 1);
    let steps: usize = p[2].parse().unwrap();
    let env = E::new();
    tick();
    if p[3] == "1" {
        let r = quiet(|| {
            let t = {
                let x = env.var(ids[0]);
                env.or(x.clone(), env.not(x))
            };
            let t2 = env.clean(t.clone());
            let f = env.mk_const(false);
            let v = env.var(ids[1]);
            let nv = env.not(v.clone());
            (t2, f, env.and(v, nv))
        });
        match r {
            Err(pn) => return Some(Fail { case: case.into(), expected: "leaves stay available after clean".into(), actual: pn }),
            Ok((t2, f, z)) => {
                if *t2 != BDD::True || *f != BDD::False || *z != BDD::False {
                    return Some(Fail { case: case.into(), expected: "True / False / False".into(), actual: format!("{} {} {}", show(&t2), show(&f), show(&z)) });
                }
            }
        }
        // the same with NO other diagram of the environment alive: a constant result is cleaned repeatedly, then the
        // environment is used again and must behave like a fresh one (both leaves still in the table)
        let env2 = E::new();
        let r2 = quiet(|| {
            let mut c = env2.and(env2.var(ids[0]), env2.not(env2.var(ids[0])));
            for _ in 0..4 {
                c = env2.clean(c);
            }
            let leaves = env2.nodes.borrow().contains_key(&BDD::True) && env2.nodes.borrow().contains_key(&BDD::False);
            let t = env2.not(c.clone());
            let o = env2.or(env2.var(ids[1]), env2.var(ids[2]));
            let e3 = E::new();
            let t3 = e3.clean(e3.mk_const(true));
            let size3 = e3.size();
            let v3 = e3.var(ids[0]);
            let nn = e3.not(e3.not(v3.clone()));
            (c, leaves, t, o, t3, size3, *nn == *v3)
        });
        return match r2 {
            Err(pn) => Some(Fail { case: case.into(), expected: "the environment stays usable after cleaning a constant with nothing else alive".into(), actual: pn }),
            Ok((c, leaves, t, o, t3, size3, same)) => {
                let fresh = E::new();
                let want_o = fresh.or(fresh.var(ids[1]), fresh.var(ids[2]));
                if *c != BDD::False || !leaves || *t != BDD::True || *o != *want_o || *t3 != BDD::True || size3 != 2 || !same {
                    Some(Fail { case: case.into(), expected: "False, both leaves in the table, True, the fresh-environment diagram, True, 2 entries, not(not v) = v".into(),
                        actual: format!("{} leaves={leaves} {} {} {} size={size3} {same}", show(&c), show(&t), show(&o), show(&t3)) })
                } else {
                    None
                }
            }
        };
    }
    let mut pool: Vec<(B, Vec<bool>)> = vec![];
    for v in &ids {
        let x = env.var(*v);
        let t = table(&x, &ids);
        pool.push((x, t));
    }
    for step in 0..steps {
        let (ia, ib, ic) = (rng.below(pool.len()), rng.below(pool.len()), rng.below(pool.len()));
        let op = rng.next() as usize % 96;
        let (a, b, c) = (pool[ia].0.clone(), pool[ib].0.clone(), pool[ic].0.clone());
        let r = quiet(|| apply_op(&env, op, a.clone(), b.clone(), c.clone(), &ids));
        let fresh = E::new();
        let (fa, fb, fc) = (build(&fresh, &ids, &pool[ia].1), build(&fresh, &ids, &pool[ib].1), build(&fresh, &ids, &pool[ic].1));
        let want = quiet(|| apply_op(&fresh, op, fa, fb, fc, &ids));
        tick();
        match (r, want) {
            (Err(pn), Ok(_)) => return Some(Fail { case: format!("{case} step {step} op {op}"), expected: "same as a fresh environment (no panic)".into(), actual: pn }),
            (Ok(r), Ok(w)) => {
                if *r != *w {
                    return Some(Fail { case: format!("{case} step {step} op {op}"), expected: format!("fresh environment gives {}", show(&w)), actual: show(&r) });
                }
                let mut seen = std::collections::HashSet::new();
                if let Some(e) = all_interned(&env, &r, &mut seen) {
                    return Some(Fail { case: format!("{case} step {step} op {op}"), expected: "every node of a result is the environment's own shared copy".into(), actual: e });
                }
                let t = table(&r, &ids);
                pool.push((r, t));
            }
            _ => {}
        }
        for (d, t) in &pool {
            if table(d, &ids) != *t {
                return Some(Fail { case: format!("{case} step {step}"), expected: "earlier results keep their meaning".into(), actual: show(d) });
            }
        }
        if quiet(|| (env.mk_const(true), env.mk_const(false))).is_err() {
            return Some(Fail { case: format!("{case} step {step}"), expected: "both leaves in the table".into(), actual: "mk_const panicked".into() });
        }
    }
    None
}

fn all_interned(env: &E, b: &B, seen: &mut std::collections::HashSet<*const BDD<usize>>) -> Option<String> {
    let p = Rc::as_ptr(b);
    if !seen.insert(p) {
        return None;
    }
    let hit = env.nodes.borrow().get(b.as_ref()).map(|x| Rc::ptr_eq(x, b));
    match hit {
        None => return Some(format!("node {} is reachable from a handed-out diagram but is not in the environment", show(b).chars().take(60).collect::<String>())),
        Some(false) => return Some("a reachable node is a second copy of an interned structure".into()),
        Some(true) => {}
    }
    if let BDD::Choice(t, _, f) = b.as_ref() {
        if let Some(e) = all_interned(env, t, seen) {
            return Some(e);
        }
        return all_interned(env, f, seen);
    }
    None
}

/// a large environment (tens of thousands of nodes, built from random truth tables over 14 variables through mk_choice):
/// every node reachable from a result held through ONE handle is the interned copy, and rebuilding a result yields the
/// very same node
fn case_history_big(case: &str) -> Option<Fail> {
    tick();
    let env = E::new();
    let r = quiet(|| {
        let mut rng = Rng(0x1234_5678_9abc_def1);
        let ids: Vec<usize> = (0..14).collect();
        let mut held: Vec<(B, Vec<bool>)> = vec![];
        while env.size() < 40000 && held.len() < 64 {
            let tt: Vec<bool> = (0..(1usize << 14)).map(|_| rng.next() & 1 == 1).collect();
            held.push((build(&env, &ids, &tt), tt));
        }
        for (k, (h, _)) in held.iter().enumerate() {
            let mut seen = std::collections::HashSet::new();
            if let Some(e) = all_interned(&env, h, &mut seen) {
                return Some(format!("held diagram #{k} in an environment of {} nodes: {e}", env.size()));
            }
        }
        let (h0, t0) = &held[held.len() / 2];
        let again = build(&env, &ids, t0);
        if !Rc::ptr_eq(&again, h0) {
            return Some(format!("rebuilding a diagram in an environment of {} nodes gave a second copy", env.size()));
        }
        None
    });
    match r {
        Err(p) => Some(Fail { case: case.into(), expected: "no panic".into(), actual: p }),
        Ok(Some(e)) => Some(Fail { case: case.into(), expected: "every reachable node exists exactly once in the environment".into(), actual: e }),
        Ok(None) => None,
    }
}

/// named definitions (`ParsedFormula::define`, outside the contracts by assumption A17): an evaluation depends only on
/// the definitions in force, not on earlier evaluations or re-definitions in the same environment
fn case_history_define(case: &str) -> Option<Fail> {
    use rsbdd::parser::ReferenceContents;
    tick();
    let ordering = || -> Vec<NamedSymbol> {
        ["a", "b", "c"].iter().enumerate().map(|(id, n)| NamedSymbol { name: Rc::new(n.to_string()), id }).collect()
    };
    let r = quiet(|| {
        let env = Rc::new(BDDEnv::<NamedSymbol>::new());
        let parse = |t: &str| ParsedFormula::new_with_env(Rc::clone(&env), &mut t.as_bytes(), Some(ordering())).expect("parse");
        let top = parse("{f} | c");
        let steps: [(&str, &str, &str); 5] = [
            ("g", "a", ""), ("f", "{g} & b", "(a & b) | c"), ("g", "-a", "(-a & b) | c"), ("f", "{g} ^ b", "(-a ^ b) | c"), ("g", "b", "(b ^ b) | c"),
        ];
        let mut earlier: Vec<(Rc<BDD<NamedSymbol>>, String)> = vec![];
        for (name, body, meaning) in steps {
            top.define(name, ReferenceContents::Syntax(parse(body).bdd));
            if meaning.is_empty() {
                continue;
            }
            let got = top.eval();
            let want = parse(meaning).eval();
            if got != want {
                return Some(format!("after define {name} := {body}: expected the diagram of `{meaning}` {want:?}, got {got:?}"));
            }
            // a diagram installed as a definition
            top.define("h", ReferenceContents::BDD(Rc::clone(&got)));
            let via = parse("{h}");
            via.define("h", ReferenceContents::BDD(Rc::clone(&got)));
            if via.eval() != want {
                return Some(format!("a diagram installed as definition `h` evaluates differently after define {name} := {body}"));
            }
            for (d, m) in &earlier {
                if *d != parse(m).eval() {
                    return Some(format!("an earlier result (`{m}`) changed its meaning"));
                }
            }
            earlier.push((got, meaning.to_string()));
        }
        None
    });
    match r {
        Err(p) => Some(Fail { case: case.into(), expected: "no panic".into(), actual: p }),
        Ok(Some(e)) => Some(Fail { case: case.into(), expected: "evaluation depends only on the definitions in force".into(), actual: e }),
        Ok(None) => None,
    }
}

/// formulas evaluated in ONE environment whose names are numbered differently (`a | b` then `b | a`): symbols with the same
/// id are the same variable whatever their name, so the second evaluation must find every node of the first one in the
/// table (one shared node per structure: the table does not grow, the results are the same allocation)
fn case_history_names(case: &str) -> Option<Fail> {
    tick();
    let r = quiet(|| {
        let pairs = [("a | b", "b | a"), ("(x & y) ^ z", "(p & q) ^ r"), ("[a, b, c] = 1", "[c, a, b] = 1"), ("exists q # (q & a) | b", "exists z # (z & x) | y")];
        for (f1, f2) in pairs {
            let env = Rc::new(BDDEnv::<NamedSymbol>::new());
            let p1 = ParsedFormula::new_with_env(Rc::clone(&env), &mut f1.as_bytes(), None).expect("parse");
            let r1 = p1.eval();
            let size1 = env.size();
            let p2 = ParsedFormula::new_with_env(Rc::clone(&env), &mut f2.as_bytes(), None).expect("parse");
            let r2 = p2.eval();
            let size2 = env.size();
            if r1 != r2 {
                return Some(format!("`{f1}` and `{f2}` number their names alike but evaluate to different structures: {r1:?} vs {r2:?}"));
            }
            if size2 != size1 {
                return Some(format!("evaluating `{f2}` after `{f1}` in one environment grew the node table from {size1} to {size2} entries although every node already existed"));
            }
            if !Rc::ptr_eq(&r1, &r2) {
                return Some(format!("`{f1}` and `{f2}` in one environment: structurally equal results are two allocations"));
            }
            let fresh = Rc::new(BDDEnv::<NamedSymbol>::new());
            let p3 = ParsedFormula::new_with_env(Rc::clone(&fresh), &mut f2.as_bytes(), None).expect("parse");
            let _ = p3.eval();
            if fresh.size() != size2 {
                return Some(format!("node table after `{f1}`; `{f2}` has {size2} entries, a fresh environment evaluating `{f2}` has {}", fresh.size()));
            }
        }
        None
    });
    match r {
        Err(p) => Some(Fail { case: case.into(), expected: "no panic".into(), actual: p }),
        Ok(Some(e)) => Some(Fail { case: case.into(), expected: "one shared node per structure, whatever the names".into(), actual: e }),
        Ok(None) => None,
    }
}

/// a universal and an existential quantification over the same variable, back to back on the same diagram in ONE environment
/// (both orders), must each give what a fresh environment gives
fn case_history_quantpair(case: &str) -> Option<Fail> {
    tick();
    let ids = vec![1usize, 3, 5, 7];
    let r = quiet(|| {
        for tt in [0b1110_0100u32, 0b0110_1001, 0b1000_0111, 0b0011_0101, 0b1101_0010, 0b0001_1011] {
            let bits: Vec<bool> = (0..8).map(|k| (tt >> k) & 1 == 1).collect();
            for vi in 0..3usize {
                for order in 0..2 {
                    let env = E::new();
                    let f = build(&env, &ids[..3], &bits);
                    let v = ids[vi];
                    let (first, second) = if order == 0 { (env.all(vec![v], f.clone()), env.exists(vec![v], f.clone())) } else { (env.exists(vec![v], f.clone()), env.all(vec![v], f.clone())) };
                    let (a_, e_) = if order == 0 { (first, second) } else { (second, first) };
                    let fr1 = E::new();
                    let wa = fr1.all(vec![v], build(&fr1, &ids[..3], &bits));
                    let fr2 = E::new();
                    let we = fr2.exists(vec![v], build(&fr2, &ids[..3], &bits));
                    if *a_ != *wa || *e_ != *we {
                        return Some(format!("tt={tt:#010b} var={v} order={order}: all -> {} (fresh {}), exists -> {} (fresh {})", show(&a_), show(&wa), show(&e_), show(&we)));
                    }
                    // and once more in the same environment
                    let e2 = env.exists(vec![v], f.clone());
                    let a2 = env.all(vec![v], f.clone());
                    if *e2 != *we || *a2 != *wa {
                        return Some(format!("tt={tt:#010b} var={v} order={order}: repeated quantification differs from a fresh environment"));
                    }
                }
            }
        }
        None
    });
    match r {
        Err(p) => Some(Fail { case: case.into(), expected: "no panic".into(), actual: p }),
        Ok(Some(e)) => Some(Fail { case: case.into(), expected: "the same results as in fresh environments".into(), actual: e }),
        Ok(None) => None,
    }
}

fn search_history(budget: usize, seed: u64) -> Option<Fail> {
    if let Some(f) = case_history_quantpair("quantpair") {
        return Some(f);
    }
    if let Some(f) = case_history("1,3,5|1|0|1") {
        return Some(f);
    }
    if let Some(f) = case_history_names("names") {
        return Some(f);
    }
    if let Some(f) = case_history_define("define") {
        return Some(f);
    }
    if let Some(f) = case_history_big("big") {
        return Some(f);
    }
    for k in 0..(budget / 30).max(50) {
        if let Some(f) = case_history(&format!("1,3,5|{}|25|0", seed.wrapping_mul(31).wrapping_add(k as u64))) {
            return Some(f);
        }
    }
    None
}

// ------------------------------------------------------------------ independent formula semantics

#[derive(Clone, Debug)]
enum F {
    Const(bool),
    Var(String),
    Not(Box<F>),
    Bin(&'static str, Box<F>, Box<F>),
    Ite(Box<F>, Box<F>, Box<F>),
    Quant(bool, Vec<String>, Box<F>), // true = exists
    CntC(&'static str, Vec<F>, u64),
    CntV(&'static str, Vec<F>, Vec<F>),
    Fix(bool, String, Box<F>), // true = gfp
}

const BINOPS: [(&str, &[&str]); 8] = [
    ("and", &["and", "&", "*"]),
    ("or", &["or", "|", "+"]),
    ("xor", &["xor", "^"]),
    ("nor", &["nor"]),
    ("nand", &["nand"]),
    ("implies", &["implies", "in", "=>"]),
    ("impliesinv", &["<="]),
    ("iff", &["iff", "eq", "<=>"]),
];
const CNTOPS: [&str; 5] = ["=", "<=", ">=", "<", ">"];

fn text(f: &F, rng: &mut Rng) -> String {
    match f {
        F::Const(b) => (if *b { "true" } else { "false" }).into(),
        F::Var(v) => v.clone(),
        F::Not(x) => format!("{}({})", ["-", "!", "not "][(rng.next() % 3) as usize], text(x, rng)),
        F::Bin(op, l, r) => {
            let sp = BINOPS.iter().find(|(n, _)| n == op).unwrap().1;
            format!("(({}) {} ({}))", text(l, rng), sp[(rng.next() as usize) % sp.len()], text(r, rng))
        }
        F::Ite(c, t, e) => format!("(if {} then {} else {})", text(c, rng), text(t, rng), text(e, rng)),
        F::Quant(ex, vs, b) => format!(
            "({} {} # {})",
            if *ex { ["exists", "any"][(rng.next() % 2) as usize] } else { ["forall", "all"][(rng.next() % 2) as usize] },
            vs.join(", "),
            text(b, rng)
        ),
        F::CntC(op, l, n) => format!("([{}] {} {})", l.iter().map(|x| text(x, rng)).collect::<Vec<_>>().join(", "), op, n),
        F::CntV(op, l, r) => format!(
            "([{}] {} [{}])",
            l.iter().map(|x| text(x, rng)).collect::<Vec<_>>().join(", "),
            op,
            r.iter().map(|x| text(x, rng)).collect::<Vec<_>>().join(", ")
        ),
        F::Fix(g, x, b) => format!("({} {} # {})", if *g { ["gfp", "nu"][(rng.next() % 2) as usize] } else { ["lfp", "mu"][(rng.next() % 2) as usize] }, x, text(b, rng)),
    }
}

fn names(f: &F, out: &mut Vec<String>) {
    let mut add = |s: &String| {
        if !out.contains(s) {
            out.push(s.clone())
        }
    };
    match f {
        F::Const(_) => {}
        F::Var(v) => add(v),
        F::Not(x) => names(x, out),
        F::Bin(_, l, r) => {
            names(l, out);
            names(r, out)
        }
        F::Ite(a, b, c) => {
            names(a, out);
            names(b, out);
            names(c, out)
        }
        F::Quant(_, vs, b) => {
            vs.iter().for_each(&mut add);
            names(b, out)
        }
        F::CntC(_, l, _) => l.iter().for_each(|x| names(x, out)),
        F::CntV(_, l, r) => l.iter().chain(r.iter()).for_each(|x| names(x, out)),
        F::Fix(_, x, b) => {
            add(x);
            names(b, out)
        }
    }
}

fn free(f: &F, bound: &mut Vec<String>, out: &mut Vec<String>) {
    match f {
        F::Const(_) => {}
        F::Var(v) => {
            if !bound.contains(v) && !out.contains(v) {
                out.push(v.clone())
            }
        }
        F::Not(x) => free(x, bound, out),
        F::Bin(_, l, r) => {
            free(l, bound, out);
            free(r, bound, out)
        }
        F::Ite(a, b, c) => {
            free(a, bound, out);
            free(b, bound, out);
            free(c, bound, out)
        }
        F::Quant(_, vs, b) => {
            let n = bound.len();
            bound.extend(vs.iter().cloned());
            free(b, bound, out);
            bound.truncate(n);
        }
        F::CntC(_, l, _) => l.iter().for_each(|x| free(x, bound, out)),
        F::CntV(_, l, r) => l.iter().chain(r.iter()).for_each(|x| free(x, bound, out)),
        F::Fix(_, x, b) => {
            bound.push(x.clone());
            free(b, bound, out);
            bound.pop();
        }
    }
}

/// truth table (over `vars`, row bit i = value of vars[i]) of f; env gives the current value of fixed-point names.
/// None = a fixed point did not converge within the cap.
fn sem(f: &F, vars: &[String], env: &BTreeMap<String, Vec<bool>>) -> Option<Vec<bool>> {
    let rows = 1usize << vars.len();
    let idx = |v: &String| vars.iter().position(|x| x == v).unwrap();
    Some(match f {
        F::Const(b) => vec![*b; rows],
        F::Var(v) => match env.get(v) {
            Some(t) => t.clone(),
            None => (0..rows).map(|r| (r >> idx(v)) & 1 == 1).collect(),
        },
        F::Not(x) => sem(x, vars, env)?.iter().map(|b| !b).collect(),
        F::Bin(op, l, r) => {
            let (a, b) = (sem(l, vars, env)?, sem(r, vars, env)?);
            (0..rows)
                .map(|i| match *op {
                    "and" => a[i] && b[i],
                    "or" => a[i] || b[i],
                    "xor" => a[i] != b[i],
                    "nor" => !(a[i] || b[i]),
                    "nand" => !(a[i] && b[i]),
                    "implies" => !a[i] || b[i],
                    "impliesinv" => !b[i] || a[i],
                    "iff" => a[i] == b[i],
                    _ => unreachable!(),
                })
                .collect()
        }
        F::Ite(c, t, e) => {
            let (c, t, e) = (sem(c, vars, env)?, sem(t, vars, env)?, sem(e, vars, env)?);
            (0..rows).map(|i| if c[i] { t[i] } else { e[i] }).collect()
        }
        F::Quant(ex, vs, b) => {
            let mut env2 = env.clone();
            for v in vs {
                env2.remove(v);
            }
            let mut t = sem(b, vars, &env2)?;
            for v in vs.iter().rev() {
                let k = idx(v);
                t = (0..rows)
                    .map(|r| {
                        let (lo, hi) = (t[r & !(1 << k)], t[r | (1 << k)]);
                        if *ex { lo || hi } else { lo && hi }
                    })
                    .collect();
            }
            t
        }
        F::CntC(op, l, n) => {
            let ts: Option<Vec<Vec<bool>>> = l.iter().map(|x| sem(x, vars, env)).collect();
            let ts = ts?;
            (0..rows)
                .map(|i| {
                    let c = ts.iter().filter(|t| t[i]).count() as u128;
                    let n = *n as u128;
                    match *op {
                        "=" => c == n,
                        "<=" => c <= n,
                        ">=" => c >= n,
                        "<" => c < n,
                        ">" => c > n,
                        _ => unreachable!(),
                    }
                })
                .collect()
        }
        F::CntV(op, l, r) => {
            let tl: Option<Vec<Vec<bool>>> = l.iter().map(|x| sem(x, vars, env)).collect();
            let tr: Option<Vec<Vec<bool>>> = r.iter().map(|x| sem(x, vars, env)).collect();
            let (tl, tr) = (tl?, tr?);
            (0..rows)
                .map(|i| {
                    let (a, b) = (tl.iter().filter(|t| t[i]).count(), tr.iter().filter(|t| t[i]).count());
                    match *op {
                        "=" => a == b,
                        "<=" => a <= b,
                        ">=" => a >= b,
                        "<" => a < b,
                        ">" => a > b,
                        _ => unreachable!(),
                    }
                })
                .collect()
        }
        F::Fix(g, x, b) => {
            let mut cur = vec![*g; rows];
            let mut k = 0;
            loop {
                let mut env2 = env.clone();
                env2.insert(x.clone(), cur.clone());
                let nxt = sem(b, vars, &env2)?;
                if nxt == cur {
                    break cur;
                }
                cur = nxt;
                k += 1;
                if k > 40 {
                    return None;
                }
            }
        }
    })
}

struct Rng(u64);
impl Rng {
    fn next(&mut self) -> u64 {
        self.0 ^= self.0 << 13;
        self.0 ^= self.0 >> 7;
        self.0 ^= self.0 << 17;
        self.0
    }
    fn below(&mut self, n: usize) -> usize {
        (self.next() % n as u64) as usize
    }
}

const VNAMES: [&str; 4] = ["a", "b", "c", "X"];

/// pos: names that may only be used positively here (fixed-point variables in scope, to keep bodies monotone)
fn gen(rng: &mut Rng, depth: usize, fixvars: &Vec<String>, positive: bool) -> F {
    let leaf = |rng: &mut Rng| -> F {
        match rng.below(8) {
            0 => F::Const(rng.below(2) == 1),
            _ => {
                let v = VNAMES[rng.below(VNAMES.len())].to_string();
                if fixvars.contains(&v) && !positive {
                    F::Var("b".into()) // never a fixed-point name (fixed points bind X or a only)
                } else {
                    F::Var(v)
                }
            }
        }
    };
    if depth == 0 {
        return leaf(rng);
    }
    let has_fix = !fixvars.is_empty();
    match rng.below(12) {
        0 | 1 => leaf(rng),
        2 => F::Not(Box::new(gen(rng, depth - 1, fixvars, !positive))),
        3 | 4 => {
            // monotone-safe operators when a fixed-point variable is in scope
            let ops: &[&'static str] = if has_fix { &["and", "or"] } else { &["and", "or", "xor", "nor", "nand", "implies", "impliesinv", "iff"] };
            F::Bin(ops[rng.below(ops.len())], Box::new(gen(rng, depth - 1, fixvars, positive)), Box::new(gen(rng, depth - 1, fixvars, positive)))
        }
        5 => {
            let c = gen(rng, depth - 1, &vec![], positive); // condition must not mention fixed-point names
            let c = strip(&c, fixvars);
            F::Ite(Box::new(c), Box::new(gen(rng, depth - 1, fixvars, positive)), Box::new(gen(rng, depth - 1, fixvars, positive)))
        }
        6 | 7 => {
            let n = rng.below(3);
            let vs: Vec<String> = (0..n).map(|_| VNAMES[rng.below(VNAMES.len())].to_string()).collect();
            let inner: Vec<String> = fixvars.iter().filter(|v| !vs.contains(v)).cloned().collect();
            F::Quant(rng.below(2) == 1, vs, Box::new(gen(rng, depth - 1, &inner, positive)))
        }
        8 => {
            let n = rng.below(4);
            let l: Vec<F> = (0..n).map(|_| gen(rng, depth - 1, fixvars, positive)).collect();
            let k = [0u64, 1, 2, 3, n as u64, n as u64 + 1, u64::MAX, i64::MAX as u64, i64::MAX as u64 + 1][rng.below(9)];
            // with a fixed-point variable in scope only the monotone comparison
            let op = if has_fix { ">=" } else { CNTOPS[rng.below(5)] };
            let l = if has_fix && !positive { l.iter().map(|x| strip(x, fixvars)).collect() } else { l };
            F::CntC(op, l, k)
        }
        9 => {
            let l: Vec<F> = (0..rng.below(3)).map(|_| strip(&gen(rng, depth - 1, &vec![], positive), fixvars)).collect();
            let r: Vec<F> = (0..rng.below(3)).map(|_| strip(&gen(rng, depth - 1, &vec![], positive), fixvars)).collect();
            F::CntV(CNTOPS[rng.below(5)], l, r)
        }
        _ => {
            let x = ["X", "a"][rng.below(2)].to_string();
            let mut fv = fixvars.clone();
            if !fv.contains(&x) {
                fv.push(x.clone());
            }
            // the body must be monotone in x: generate with x usable only positively
            F::Fix(rng.below(2) == 1, x, Box::new(gen(rng, depth - 1, &fv, true)))
        }
    }
}

/// replace occurrences of the given names by `b` (keeps a sub-formula free of fixed-point names)
fn strip(f: &F, fixvars: &Vec<String>) -> F {
    match f {
        F::Var(v) if fixvars.contains(v) => F::Var("b".into()),
        F::Const(_) | F::Var(_) => f.clone(),
        F::Not(x) => F::Not(Box::new(strip(x, fixvars))),
        F::Bin(o, l, r) => F::Bin(o, Box::new(strip(l, fixvars)), Box::new(strip(r, fixvars))),
        F::Ite(a, b, c) => F::Ite(Box::new(strip(a, fixvars)), Box::new(strip(b, fixvars)), Box::new(strip(c, fixvars))),
        F::Quant(e, vs, b) => F::Quant(*e, vs.clone(), Box::new(strip(b, fixvars))),
        F::CntC(o, l, n) => F::CntC(o, l.iter().map(|x| strip(x, fixvars)).collect(), *n),
        F::CntV(o, l, r) => F::CntV(o, l.iter().map(|x| strip(x, fixvars)).collect(), r.iter().map(|x| strip(x, fixvars)).collect()),
        F::Fix(g, x, b) => F::Fix(*g, x.clone(), Box::new(strip(b, fixvars))),
    }
}

fn eval_named(b: &BDD<NamedSymbol>, asg: &dyn Fn(&str) -> bool) -> bool {
    match b {
        BDD::False => false,
        BDD::True => true,
        BDD::Choice(t, v, f) => {
            if asg(v.name.as_str()) {
                eval_named(t, asg)
            } else {
                eval_named(f, asg)
            }
        }
    }
}

fn robdd_named(b: &BDD<NamedSymbol>, lo: Option<usize>) -> bool {
    match b {
        BDD::False | BDD::True => true,
        BDD::Choice(t, v, f) => lo.map_or(true, |l| v.id > l) && t.as_ref() != f.as_ref() && robdd_named(t, Some(v.id)) && robdd_named(f, Some(v.id)),
    }
}

fn support_named(b: &BDD<NamedSymbol>, out: &mut Vec<String>) {
    if let BDD::Choice(t, v, f) = b {
        if !out.contains(v.name.as_ref()) {
            out.push(v.name.as_ref().clone());
        }
        support_named(t, out);
        support_named(f, out);
    }
}

fn support_syms(b: &BDD<NamedSymbol>, out: &mut Vec<NamedSymbol>) {
    if let BDD::Choice(t, v, f) = b {
        if !out.iter().any(|w| w.id == v.id) {
            out.push(v.clone());
        }
        support_syms(t, out);
        support_syms(f, out);
    }
}

/// check the real pipeline (tokenize -> parse -> free variables -> eval) on `src` against the reference meaning of f
fn check_formula(case: &str, f: &F, src: &str) -> Option<Fail> {
    let mut vars = vec![];
    names(f, &mut vars);
    let want = sem(f, &vars, &BTreeMap::new())?;
    let mut wfree = vec![];
    free(f, &mut vec![], &mut wfree);
    tick();
    let res = quiet(|| {
        let mut rd = src.as_bytes();
        let pf = ParsedFormula::new(&mut rd, None).map_err(|e| e.to_string())?;
        let r = pf.eval();
        Ok::<_, String>((pf, r))
    });
    let (pf, r) = match res {
        Err(p) => return if self::want("panic") { Some(Fail { case: case.into(), expected: format!("tt={}", tts(&want)), actual: p }) } else { None },
        Ok(Err(e)) => return if self::want("accept") { Some(Fail { case: case.into(), expected: "accepted formula".into(), actual: format!("Err({e})") }) } else { None },
        Ok(Ok(x)) => x,
    };
    let got: Vec<bool> = (0..want.len()).map(|row| eval_named(&r, &|n| vars.iter().position(|x| x == n).map_or(false, |p| (row >> p) & 1 == 1))).collect();
    if self::want("sem") && got != want {
        return Some(Fail { case: case.into(), expected: format!("tt={} over {:?}", tts(&want), vars), actual: format!("tt={}", tts(&got)) });
    }
    if self::want("shape") && got == want && (want.iter().all(|x| *x) && *r != BDD::True || want.iter().all(|x| !*x) && *r != BDD::False) {
        return Some(Fail { case: case.into(), expected: "literal leaf for a constant function".into(), actual: format!("{r:?}") });
    }
    if self::want("shape") && !robdd_named(&r, None) {
        return Some(Fail { case: case.into(), expected: "ordered and reduced".into(), actual: format!("{r:?}") });
    }
    // full variable list: every name of the text exactly once, in id order
    let mut allv: Vec<String> = pf.vars.iter().map(|v| v.name.as_ref().clone()).collect();
    let ids_sorted = pf.vars.windows(2).all(|w| w[0].id < w[1].id);
    let mut wall = vars.clone();
    allv.sort();
    wall.sort();
    if self::want("vars") && (allv != wall || !ids_sorted) {
        return Some(Fail { case: case.into(), expected: format!("variable list = every name once, ordered by id: {wall:?}"), actual: format!("{:?}", pf.vars) });
    }
    // free variables: exactly the names with a free occurrence, in id (= first appearance) order
    let mut gfree: Vec<String> = pf.free_vars.iter().map(|v| v.name.as_ref().clone()).collect();
    let mut w2 = wfree.clone();
    gfree.sort();
    w2.sort();
    if self::want("vars") && gfree != w2 {
        return Some(Fail { case: case.into(), expected: format!("free variables {w2:?}"), actual: format!("{gfree:?}") });
    }
    let mut sup = vec![];
    support_named(&r, &mut sup);
    if self::want("vars") && sup.iter().any(|v| !wfree.contains(v)) {
        return Some(Fail { case: case.into(), expected: format!("result depends only on free variables {wfree:?}"), actual: format!("{sup:?}") });
    }
    // every free variable has a column index; indices are a bijection onto 0..free
    let idx = quiet(|| pf.free_vars.iter().map(|v| pf.to_free_index(v)).collect::<Vec<_>>());
    match idx {
        Err(p) => return if self::want("panic") || self::want("vars") { Some(Fail { case: case.into(), expected: "column index for every free variable".into(), actual: p }) } else { None },
        Ok(ix) => {
            if self::want("vars") && ix != (0..pf.free_vars.len()).collect::<Vec<_>>() {
                return Some(Fail { case: case.into(), expected: "free variable i has column i".into(), actual: format!("{ix:?}") });
            }
        }
    }
    // what the table printers do for every node of the result: ask for the column of the variable it tests
    if self::want("panic") || self::want("vars") {
        let mut syms = vec![];
        support_syms(&r, &mut syms);
        if let Err(p) = quiet(|| syms.iter().map(|v| pf.to_free_index(v)).collect::<Vec<_>>()) {
            return Some(Fail { case: case.into(), expected: "a column for every variable the result tests (the table printers ask for it)".into(), actual: p });
        }
    }
    None
}

const CORNER: [&str; 50] = [
    "mu X # ((a | (nu X # (X & b))) | X)",
    "nu X # ((mu X # (X | a)) & X)",
    "(lfp X # ((gfp X # (X & a)) | (X & b))) | c",
    "mu X # ((a & b) | (exists a # X))",
    "nu X # ((a | b) & (all a # X))",
    "false <= a",
    "(a & -a) <= b",
    "a & b | c & d",
    "a ^ b & c | d ^ a",
    "a <=> b ^ c & d | a",
    "gfp X # (lfp Y # (Y | (!(a & b) & (a => (all b # X)))))",
    "lfp X # (gfp Y # (Y & ((a & b) | (a & (exists b # X)))))",
    "gfp X # ((lfp Y # (Y | (a & X))) & (lfp Y # (Y | (b & X))))",
    "lfp X # (a | (gfp Y # (Y & (exists a # X))))",
    "nu X # (mu Y # ((a & X) | (b & Y) | (forall a # Y)))",
    "mu X # (nu Y # ((a | X) & (b | Y) & (exists b # (X | c))))",
    "mu X # (exists X # X)",
    "mu X # (a | (exists X # X))",
    "lfp X # (a & (exists c, b, X # (X & b & c)))",
    "gfp X # (a | (all c, b, X # (X | b | c)))",
    "[a, b] < 0",
    "[] < 0",
    "[a] <= 18446744073709551615",
    "[a] > 9223372036854775807",
    "[a] >= 9223372036854775808",
    "[a, a] = [a]",
    "[a, a] > [a]",
    "a <= b",
    "a <= b <= c",
    "-a & b",
    "if b then a & c else c",
    "exists b, a # (a ^ b ^ c)",
    "forall c, a # (a | b | c)",
    "gfp X # (lfp a # (a | (b & X)))",
    "nu X # mu X # (X | a)",
    "lfp X # gfp X # (X & a)",
    "exists a # forall a # a",
    "a nand b nor c",
    "[a, b, c,] >= 2",
    "exists # a",
    // the bound name of a fixed point inside operand lists, on either side, where the comparison is monotone in it
    "lfp X # ([a] <= [X, b])",
    "mu X # (a | ([b] <= [X]))",
    "nu X # ([b, c] < [X, a, c])",
    "gfp X # ([X, a] >= [b])",
    "lfp X # ([a, X, b] > [c])",
    "lfp X # (b | ([X, a] >= 2))",
    "gfp X # ([a, b] <= [b, (X & c)])",
    "mu X # ([a] <= [b, (nu Y # (Y & (X | c)))])",
    "lfp X # (exists b # ([a, b] <= [X, c]))",
    "nu X # ([c] <= [(all a # (X | a)), b])",
];

/// case: a formula text (corner cases are parsed by the reference parser to obtain their meaning)
fn case_formula(case: &str) -> Option<Fail> {
    let toks = quiet(|| SymbolicBDD::tokenize(&mut case.as_bytes(), None)).ok()?.ok()?;
    let (tree, rest) = ref_sub(&toks)?;
    if rest.first() != Some(&SymbolicBDDToken::Eof) {
        return None;
    }
    let f = to_f(&tree)?;
    check_formula(case, &f, case)
}

fn search_formula(budget: usize, seed: u64) -> Option<Fail> {
    for c in CORNER {
        if let Some(f) = case_formula(c) {
            return Some(f);
        }
    }
    let mut rng = Rng(seed.wrapping_mul(0x9E3779B97F4A7C15) | 1);
    for i in 0..budget {
        let depth = 1 + (i % 3);
        let f = gen(&mut rng, depth, &vec![], true);
        let src = text(&f, &mut rng);
        if let Some(x) = check_formula(&src, &f, &src) {
            return Some(x);
        }
    }
    None
}

// ------------------------------------------------------------------ independent parser (README grammar) over real tokens

type T = SymbolicBDDToken;

fn binop(t: &T) -> Option<BinaryOperator> {
    Some(match t {
        T::And => BinaryOperator::And,
        T::Or => BinaryOperator::Or,
        T::Xor => BinaryOperator::Xor,
        T::Nor => BinaryOperator::Nor,
        T::Nand => BinaryOperator::Nand,
        T::Implies => BinaryOperator::Implies,
        T::ImpliesInv => BinaryOperator::ImpliesInv,
        T::Iff => BinaryOperator::Iff,
        _ => return None,
    })
}

fn ref_sub(ts: &[T]) -> Option<(SymbolicBDD, &[T])> {
    let (l, r) = ref_simple(ts)?;
    if let Some(op) = r.first().and_then(binop) {
        let (rt, r2) = ref_sub(&r[1..])?;
        return Some((SymbolicBDD::BinaryOp(op, Box::new(l), Box::new(rt)), r2));
    }
    Some((l, r))
}

fn ref_list(ts: &[T]) -> Option<(Vec<SymbolicBDD>, &[T])> {
    if ts.first() != Some(&T::OpenSquare) {
        return None;
    }
    let mut cur = &ts[1..];
    let mut out = vec![];
    loop {
        if cur.first() == Some(&T::CloseSquare) {
            return Some((out, &cur[1..]));
        }
        let (f, r) = ref_sub(cur)?;
        out.push(f);
        if r.first() == Some(&T::Comma) {
            cur = &r[1..];
        } else if r.first() == Some(&T::CloseSquare) {
            return Some((out, &r[1..]));
        } else {
            return None;
        }
    }
}

fn ref_vars(ts: &[T]) -> Option<(Vec<NamedSymbol>, &[T])> {
    let mut cur = ts;
    let mut out = vec![];
    loop {
        if cur.first() == Some(&T::Hash) {
            return Some((out, cur));
        }
        match cur.first() {
            Some(T::Var(v)) => {
                out.push(v.clone());
                if cur.get(1) == Some(&T::Comma) {
                    cur = &cur[2..];
                } else {
                    return Some((out, &cur[1..]));
                }
            }
            _ => return None,
        }
    }
}

fn ref_simple(ts: &[T]) -> Option<(SymbolicBDD, &[T])> {
    match ts.first()? {
        T::OpenParen => {
            let (f, r) = ref_sub(&ts[1..])?;
            if r.first() == Some(&T::CloseParen) { Some((f, &r[1..])) } else { None }
        }
        T::OpenSquare => {
            let (l, r) = ref_list(ts)?;
            let op = match r.first()? {
                T::Eq => CountableOperator::Exactly,
                T::ImpliesInv => CountableOperator::AtMost,
                T::Geq => CountableOperator::AtLeast,
                T::Lt => CountableOperator::LessThan,
                T::Gt => CountableOperator::MoreThan,
                _ => return None,
            };
            let r1 = &r[1..];
            if r1.first() == Some(&T::OpenSquare) {
                let (rl, r2) = ref_list(r1)?;
                Some((SymbolicBDD::CountableVariable(op, l, rl), r2))
            } else if let Some(T::Countable(n)) = r1.first() {
                Some((SymbolicBDD::CountableConst(op, l, *n), &r1[1..]))
            } else {
                None
            }
        }
        T::False => Some((SymbolicBDD::False, &ts[1..])),
        T::True => Some((SymbolicBDD::True, &ts[1..])),
        T::Reference(n) => Some((SymbolicBDD::Reference(n.clone()), &ts[1..])),
        T::Var(v) => Some((SymbolicBDD::Var(v.clone()), &ts[1..])),
        T::Not => {
            let (f, r) = ref_simple(&ts[1..])?;
            Some((SymbolicBDD::Not(Box::new(f)), r))
        }
        q @ (T::Exists | T::Forall) => {
            let (vs, r) = ref_vars(&ts[1..])?;
            if r.first() != Some(&T::Hash) {
                return None;
            }
            let (f, r2) = ref_sub(&r[1..])?;
            let qt = if *q == T::Exists { QuantifierType::Exists } else { QuantifierType::Forall };
            Some((SymbolicBDD::Quantifier(qt, vs, Box::new(f)), r2))
        }
        g @ (T::GFP | T::LFP) => {
            let v = match ts.get(1)? {
                T::Var(v) => v.clone(),
                _ => return None,
            };
            if ts.get(2) != Some(&T::Hash) {
                return None;
            }
            let (f, r) = ref_sub(&ts[3..])?;
            Some((SymbolicBDD::FixedPoint(v, *g == T::GFP, Box::new(f)), r))
        }
        T::If => {
            let (c, r1) = ref_sub(&ts[1..])?;
            if r1.first() != Some(&T::Then) {
                return None;
            }
            let (t, r2) = ref_sub(&r1[1..])?;
            if r2.first() != Some(&T::Else) {
                return None;
            }
            let (e, r3) = ref_sub(&r2[1..])?;
            Some((SymbolicBDD::Ite(Box::new(c), Box::new(t), Box::new(e)), r3))
        }
        _ => None,
    }
}

fn to_f(t: &SymbolicBDD) -> Option<F> {
    Some(match t {
        SymbolicBDD::False => F::Const(false),
        SymbolicBDD::True => F::Const(true),
        SymbolicBDD::Var(v) => F::Var(v.name.as_ref().clone()),
        SymbolicBDD::Not(b) => F::Not(Box::new(to_f(b)?)),
        SymbolicBDD::Quantifier(q, vs, b) => F::Quant(*q == QuantifierType::Exists, vs.iter().map(|v| v.name.as_ref().clone()).collect(), Box::new(to_f(b)?)),
        SymbolicBDD::CountableConst(op, l, n) => F::CntC(cop(*op), l.iter().map(to_f).collect::<Option<Vec<_>>>()?, *n as u64),
        SymbolicBDD::CountableVariable(op, l, r) => F::CntV(cop(*op), l.iter().map(to_f).collect::<Option<Vec<_>>>()?, r.iter().map(to_f).collect::<Option<Vec<_>>>()?),
        SymbolicBDD::FixedPoint(x, g, b) => F::Fix(*g, x.name.as_ref().clone(), Box::new(to_f(b)?)),
        SymbolicBDD::Ite(a, b, c) => F::Ite(Box::new(to_f(a)?), Box::new(to_f(b)?), Box::new(to_f(c)?)),
        SymbolicBDD::BinaryOp(op, l, r) => F::Bin(
            match op {
                BinaryOperator::And => "and",
                BinaryOperator::Or => "or",
                BinaryOperator::Xor => "xor",
                BinaryOperator::Nor => "nor",
                BinaryOperator::Nand => "nand",
                BinaryOperator::Implies => "implies",
                BinaryOperator::ImpliesInv => "impliesinv",
                BinaryOperator::Iff => "iff",
            },
            Box::new(to_f(l)?),
            Box::new(to_f(r)?),
        ),
        _ => return None,
    })
}

fn cop(op: CountableOperator) -> &'static str {
    match op {
        CountableOperator::Exactly => "=",
        CountableOperator::AtMost => "<=",
        CountableOperator::AtLeast => ">=",
        CountableOperator::LessThan => "<",
        CountableOperator::MoreThan => ">",
    }
}

/// case: a text.  The real parser must accept exactly when the reference grammar does, with the same tree.
fn case_parse(case: &str) -> Option<Fail> {
    let toks = match quiet(|| SymbolicBDD::tokenize(&mut case.as_bytes(), None)) {
        Err(p) => return if self::want("panic") { Some(Fail { case: case.into(), expected: "tokens or Err".into(), actual: p }) } else { None },
        Ok(Err(_)) => return None,
        Ok(Ok(t)) => t,
    };
    let want = ref_sub(&toks).and_then(|(t, r)| if r.first() == Some(&T::Eof) { Some(t) } else { None });
    tick();
    let got = quiet(|| ParsedFormula::new(&mut case.as_bytes(), None).map(|p| p.bdd));
    match got {
        Err(p) => if self::want("panic") { Some(Fail { case: case.into(), expected: format!("{want:?}"), actual: p }) } else { None },
        Ok(g) => {
            let g = g.ok();
            if self::want("sem") && g != want {
                Some(Fail { case: case.into(), expected: format!("{want:?}"), actual: format!("{g:?}") })
            } else {
                None
            }
        }
    }
}

const ALPHA: [&str; 22] = ["a", "b", "(", ")", "[", "]", ",", "#", "-", "&", "<=", "=", ">", "1", "exists", "lfp", "if", "then", "else", "true", "=>", "gfp"];

fn search_parse(budget: usize, seed: u64) -> Option<Fail> {
    // exhaustive up to length 3 (4 in thorough), then random longer sequences and mutated sentences
    let maxlen = if budget >= 200_000 { 4 } else { 3 };
    let mut idx = vec![0usize; 0];
    for len in 1..=maxlen {
        idx.clear();
        idx.resize(len, 0);
        loop {
            let s: Vec<&str> = idx.iter().map(|i| ALPHA[*i]).collect();
            if let Some(f) = case_parse(&s.join(" ")) {
                return Some(f);
            }
            let mut k = len;
            loop {
                if k == 0 {
                    break;
                }
                k -= 1;
                idx[k] += 1;
                if idx[k] < ALPHA.len() {
                    break;
                }
                idx[k] = 0;
                if k == 0 {
                    k = usize::MAX;
                    break;
                }
            }
            if k == usize::MAX {
                break;
            }
        }
    }
    let mut rng = Rng(seed | 1);
    // unparenthesised operator chains (right associativity without precedence), all operator spellings
    let ops = ["&", "and", "*", "|", "or", "+", "^", "xor", "nor", "nand", "=>", "implies", "in", "<=", "<=>", "iff", "eq"];
    let atoms = ["a", "b", "c", "d", "-a", "!b", "not c", "(a | b)", "true", "[a, b] = 1", "exists a # a", "if a then b else c"];
    for _ in 0..(budget / 2).max(500) {
        let n = 2 + rng.below(5);
        let mut t = String::from(atoms[rng.below(atoms.len())]);
        for _ in 0..n {
            t.push(' ');
            t.push_str(ops[rng.below(ops.len())]);
            t.push(' ');
            t.push_str(atoms[rng.below(atoms.len() - 2)]);
        }
        if let Some(f) = case_parse(&t) {
            return Some(f);
        }
    }
    for _ in 0..budget {
        let len = 4 + rng.below(6);
        let s: Vec<&str> = (0..len).map(|_| ALPHA[rng.below(ALPHA.len())]).collect();
        if let Some(f) = case_parse(&s.join(" ")) {
            return Some(f);
        }
    }
    for i in 0..(budget / 4) {
        let f = gen(&mut rng, 1 + i % 3, &vec![], true);
        let mut words: Vec<String> = text(&f, &mut rng).replace('(', " ( ").replace(')', " ) ").replace('[', " [ ").replace(']', " ] ").replace(',', " , ").split_whitespace().map(|s| s.to_string()).collect();
        match rng.below(3) {
            0 if !words.is_empty() => {
                let k = rng.below(words.len());
                words.remove(k);
            }
            1 => {
                let k = rng.below(words.len() + 1);
                words.insert(k, ALPHA[rng.below(ALPHA.len())].to_string());
            }
            _ => {}
        }
        if let Some(x) = case_parse(&words.join(" ")) {
            return Some(x);
        }
    }
    None
}

// ------------------------------------------------------------------ mode: lex (bounded stand-in for the regex tokenizer)

/// independent reading of README's lexical rules: symbols by longest match, numbers, `{reference}`, words (keywords and
/// aliases, everything else a variable numbered by first appearance), `"comments"`; any other character separates.
fn ref_lex(src: &str) -> Result<Vec<String>, String> {
    let cs: Vec<char> = src.chars().collect();
    let is_w = |c: char| c.is_alphanumeric() || c == '_' || c == '\'';
    let syms = ["<=>", "=>", "<=", ">=", "!", "&", "-", "|", "^", "#", "*", "+", "=", ">", "<", "[", "]", ",", "(", ")"];
    let mut out = vec![];
    let mut ids: Vec<String> = vec![];
    let mut i = 0;
    while i < cs.len() {
        let rest: String = cs[i..].iter().collect();
        if let Some(sy) = syms.iter().find(|sy| rest.starts_with(**sy)) {
            out.push(match *sy {
                "&" | "*" => "And", "|" | "+" => "Or", "^" => "Xor", "-" | "!" => "Not", "=>" => "Implies", "<=" => "ImpliesInv",
                "<=>" => "Iff", "#" => "Hash", "=" => "Eq", "<" => "Lt", ">" => "Gt", ">=" => "Geq", "(" => "OpenParen",
                ")" => "CloseParen", "[" => "OpenSquare", "]" => "CloseSquare", "," => "Comma", _ => unreachable!(),
            }.to_string());
            i += sy.chars().count();
            continue;
        }
        if cs[i].is_numeric() && cs[i].is_ascii_digit() {
            let mut j = i;
            while j < cs.len() && cs[j].is_ascii_digit() {
                j += 1;
            }
            let t: String = cs[i..j].iter().collect();
            match t.parse::<usize>() {
                Ok(n) => out.push(format!("Countable({n})")),
                Err(_) => return Err("number out of range".into()),
            }
            i = j;
            continue;
        }
        if cs[i] == '{' {
            let mut j = i + 1;
            while j < cs.len() && is_w(cs[j]) {
                j += 1;
            }
            if j > i + 1 && j < cs.len() && cs[j] == '}' {
                out.push(format!("Reference({})", cs[i + 1..j].iter().collect::<String>()));
                i = j + 1;
                continue;
            }
        }
        if is_w(cs[i]) {
            let mut j = i;
            while j < cs.len() && is_w(cs[j]) {
                j += 1;
            }
            let w: String = cs[i..j].iter().collect();
            out.push(match w.as_str() {
                "false" => "False".into(), "true" => "True".into(), "not" => "Not".into(), "and" => "And".into(), "or" => "Or".into(),
                "xor" => "Xor".into(), "nor" => "Nor".into(), "nand" => "Nand".into(), "implies" | "in" => "Implies".into(),
                "iff" | "eq" => "Iff".into(), "exists" | "any" => "Exists".into(), "forall" | "all" => "Forall".into(),
                "if" => "If".into(), "then" => "Then".into(), "else" => "Else".into(), "gfp" | "nu" => "GFP".into(), "lfp" | "mu" => "LFP".into(),
                _ => {
                    let id = ids.iter().position(|x| *x == w).unwrap_or_else(|| {
                        ids.push(w.clone());
                        ids.len() - 1
                    });
                    format!("Var({w},{id})")
                }
            });
            i = j;
            continue;
        }
        if cs[i] == '"' {
            if let Some(k) = cs[i + 1..].iter().position(|c| *c == '"') {
                i = i + 1 + k + 1;
                continue;
            }
        }
        i += 1;
    }
    out.push("Eof".into());
    Ok(out)
}

fn tok_s(t: &T) -> String {
    match t {
        T::Var(v) => format!("Var({},{})", v.name, v.id),
        T::Countable(n) => format!("Countable({n})"),
        T::Reference(n) => format!("Reference({n})"),
        other => format!("{other:?}"),
    }
}

/// case: a text.  Non-ASCII digits are outside the reference (skipped).
fn case_lex(case: &str) -> Option<Fail> {
    // the reference reads letters and ASCII digits; for other numeric characters, combining marks, connector punctuation,
    // joiners and the like (where regex `\\w` / `\\d` and the char predicates differ) the only requirement is: no panic
    let plain = |c: char| c.is_ascii() || (c.is_alphabetic() && !c.is_numeric());
    if case.chars().any(|c| (c.is_numeric() && !c.is_ascii_digit()) || !plain(c)) {
        // the only requirement there: no panic
        tick();
        return match quiet(|| SymbolicBDD::tokenize(&mut case.as_bytes(), None).map(|_| ())) {
            Err(p) => if self::want("panic") { Some(Fail { case: case.into(), expected: "tokens or Err, never a panic".into(), actual: p }) } else { None },
            Ok(_) => None,
        };
    }
    let want = ref_lex(case);
    tick();
    let got = quiet(|| SymbolicBDD::tokenize(&mut case.as_bytes(), None));
    match (got, want) {
        (Err(p), w) => if self::want("panic") { Some(Fail { case: case.into(), expected: format!("{w:?} (never a panic)"), actual: p }) } else { None },
        (Ok(Err(_)), Err(_)) => None,
        (Ok(_), _) if !self::want("sem") => None,
        (Ok(Err(e)), Ok(w)) => Some(Fail { case: case.into(), expected: format!("{w:?}"), actual: format!("Err({e})") }),
        (Ok(Ok(g)), w) => {
            let g: Vec<String> = g.iter().map(tok_s).collect();
            match w {
                Ok(w) if w == g => None,
                w => Some(Fail { case: case.into(), expected: format!("{w:?}"), actual: format!("{g:?}") }),
            }
        }
    }
}

const LEXALPHA: [&str; 44] = ["a", "b1", "1", "23", " ", "\n", "\t", "(", ")", "[", "]", ",", "#", "-", "!", "&", "|", "^", "*", "+", "=", "<", ">", "=>", "<=", "<=>", ">=",
    "\"", "{", "}", "{r}", "'", "_", "and", "exists", "mu", "@", ";", "é", "99999999999999999999999", "\0", "९९९९९९९९", "1٣٣٣٣٣٣٣٣٣٣٣", "０１２３４５６７"];

fn search_lex(budget: usize, seed: u64) -> Option<Fail> {
    for c in ["", "\"only a comment\"", "@ \"note\"", "\"a\"\"b\"", "[a, b] = 1and c", "2x & a", "a<=>b", "a<=b", "a=>b", "a>=1", "[a]>=1", "{x} & {y'}", "a \"c\" b", "a\"unterminated", "٣", "[a] = ٣",
              "a1 1a a'b _", "<==>", "<=<=>", "=>=", "--a", "a&&b", "true false TRUE", "nu mu gfp lfp any all in eq"] {
        if let Some(f) = case_lex(c) {
            return Some(f);
        }
    }
    // all strings of up to 3 lexemes (no separator between them), then random longer ones
    for a in LEXALPHA {
        if let Some(f) = case_lex(a) {
            return Some(f);
        }
        for b in LEXALPHA {
            if let Some(f) = case_lex(&format!("{a}{b}")) {
                return Some(f);
            }
            if budget >= 3000 {
                for c in LEXALPHA {
                    if let Some(f) = case_lex(&format!("{a}{b}{c}")) {
                        return Some(f);
                    }
                }
            }
        }
    }
    // all strings of up to 3 (thorough: 4) CHARACTERS over a character alphabet: what the lexeme alphabet cannot produce
    // (a lone quote / brace / apostrophe between arbitrary neighbours, control characters, mixed-script words and numbers)
    let chars: Vec<char> = "ab_1 9'\"{}()[],#-!&|^*+=<>@;.:?/\\~$%\0\t\n\ré٣９Ωß\u{2167}\u{3007}\u{ff3f}\u{203f}\u{301}\u{200d}\u{bd}\u{feff}\u{53d8}\u{1d4d0}".chars().collect();
    for a in &chars {
        for b in &chars {
            if let Some(f) = case_lex(&format!("{a}{b}")) {
                return Some(f);
            }
            for c in &chars {
                if let Some(f) = case_lex(&format!("{a}{b}{c}")) {
                    return Some(f);
                }
                if budget >= 20000 {
                    for d in ['a', '1', '\'', '"', '{', '}', '<', '=', '>', ' ', '\0', '٣'] {
                        if let Some(f) = case_lex(&format!("{a}{b}{c}{d}")) {
                            return Some(f);
                        }
                    }
                }
            }
        }
    }
    let mut rng = Rng(seed | 1);
    for _ in 0..budget {
        let n = 4 + rng.below(8);
        let s: String = (0..n).map(|_| LEXALPHA[rng.below(LEXALPHA.len())]).collect();
        if let Some(f) = case_lex(&s) {
            return Some(f);
        }
    }
    None
}

// ------------------------------------------------------------------ mode: index (orderings)

/// case: ordering names (comma separated, ids = position, "_" = gap) | formula
fn case_index(case: &str) -> Option<Fail> {
    if std::env::var("REPLAY_TRACE").is_ok() {
        eprintln!("case index {case}");
    }
    let (ord, src) = case.split_once('|').unwrap();
    let ordering: Vec<NamedSymbol> = ord
        .split(',')
        .enumerate()
        .filter(|(_, n)| !n.is_empty() && *n != "_")
        .map(|(i, n)| match n.split_once(':') {
            // `name:id` = an API ordering vector with explicit (possibly descending / gapped) ids
            Some((nm, id)) => NamedSymbol { name: Rc::new(nm.to_string()), id: id.parse().unwrap_or(i) },
            None => NamedSymbol { name: Rc::new(n.to_string()), id: i },
        })
        .collect();
    let base = quiet(|| ParsedFormula::new(&mut src.as_bytes(), None).map(|p| (p.eval(), p)));
    let with = quiet(|| ParsedFormula::new(&mut src.as_bytes(), Some(ordering.clone())).map(|p| (p.eval(), p)));
    let (b0, _p0) = match base {
        Ok(Ok(x)) => x,
        _ => return None,
    };
    tick();
    let (b1, p1) = match with {
        Err(p) => return if want("panic") { Some(Fail { case: case.into(), expected: "evaluation under the ordering".into(), actual: p }) } else { None },
        Ok(Err(e)) => return if want("accept") { Some(Fail { case: case.into(), expected: "accepted".into(), actual: e.to_string() }) } else { None },
        Ok(Ok(x)) => x,
    };
    let mut vars = vec![];
    support_named(&b0, &mut vars);
    support_named(&b1, &mut vars);
    for row in 0..(1usize << vars.len()) {
        let asg = |n: &str| vars.iter().position(|x| x == n).map_or(false, |p| (row >> p) & 1 == 1);
        if want("sem") && eval_named(&b0, &asg) != eval_named(&b1, &asg) {
            return Some(Fail { case: case.into(), expected: "same function of the same names".into(), actual: format!("differs at row {row} of {vars:?}") });
        }
    }
    if want("shape") && !robdd_named(&b1, None) {
        return Some(Fail { case: case.into(), expected: "ordered by the given ordering".into(), actual: format!("{b1:?}") });
    }
    let idx = quiet(|| p1.free_vars.iter().map(|v| p1.to_free_index(v)).collect::<Vec<_>>());
    match idx {
        Err(p) => if want("panic") || want("vars") { Some(Fail { case: case.into(), expected: "column index for every free variable".into(), actual: p }) } else { None },
        Ok(ix) if want("vars") && ix != (0..p1.free_vars.len()).collect::<Vec<_>>() => Some(Fail { case: case.into(), expected: "free variable i has column i".into(), actual: format!("{ix:?} for {:?}", p1.free_vars) }),
        _ => None,
    }
}

fn search_index(budget: usize, seed: u64) -> Option<Fail> {
    let forms = ["a", "a & b", "b | a", "exists b # (a & b) | c", "c ^ a", "[a, c] = 1", "forall a # a | b", "lfp X # (a | X)",
        "exists x, y # ((x & a) | (y & b))", "forall y, x # ((x | a) & (y | b))", "exists c, X # (lfp X # c) | X"];
    let ords = ["x,a", "a", "b,a", "c,b,a", "x,y,z", "a,x,b,y,c", "_,_,a", "b,_,a,_,c", "X,a", "a,a,b", "c",
        "b:1,a:0", "x:5,y:3", "c:4,a:2,b:0", "a:7,x:1", "b:3,c:0", "y,x", "b,a,y,x", "x,b,y,a", "X,c"];
    for f in forms {
        for o in ords {
            if let Some(x) = case_index(&format!("{o}|{f}")) {
                return Some(x);
            }
        }
    }
    let mut rng = Rng(seed | 1);
    for i in 0..(budget / 10) {
        let f = gen(&mut rng, 1 + i % 2, &vec![], true);
        let src = text(&f, &mut rng);
        let pool = ["a", "b", "c", "X", "x", "_"];
        let o: Vec<&str> = (0..rng.below(6)).map(|_| pool[rng.below(pool.len())]).collect();
        if let Some(x) = case_index(&format!("{}|{src}", o.join(","))) {
            return Some(x);
        }
        if i % 2 == 0 {
            // the same names as an API vector with distinct ids in a random (not ascending) order
            let mut names: Vec<&str> = vec![];
            for n in &o {
                if *n != "_" && !names.contains(n) {
                    names.push(n);
                }
            }
            let mut ids: Vec<usize> = (0..names.len()).map(|k| k * (1 + i % 3)).collect();
            for k in (1..ids.len()).rev() {
                let j = rng.below(k + 1);
                ids.swap(k, j);
            }
            let spec: Vec<String> = names.iter().zip(ids.iter()).map(|(n, d)| format!("{n}:{d}")).collect();
            if !spec.is_empty() {
                if let Some(x) = case_index(&format!("{}|{src}", spec.join(","))) {
                    return Some(x);
                }
            }
        }
    }
    None
}

// ------------------------------------------------------------------ driver

fn esc(s: &str) -> String {
    let mut o = String::new();
    for c in s.chars() {
        match c {
            '"' => o.push_str("\\\""),
            '\\' => o.push_str("\\\\"),
            '\n' => o.push_str("\\n"),
            c if (c as u32) < 0x20 => o.push_str(&format!("\\u{:04x}", c as u32)),
            c => o.push(c),
        }
    }
    o
}

fn report(mode: &str, f: &Fail) {
    println!("{{\"mode\":\"{}\",\"case\":\"{}\",\"expected\":\"{}\",\"actual\":\"{}\"}}", mode, esc(&f.case), esc(&f.expected), esc(&f.actual));
}

fn main() {
    if std::env::var("REPLAY_DEBUG").is_err() {
        std::panic::set_hook(Box::new(|_| {}));
    }
    let args: Vec<String> = std::env::args().collect();
    if args.len() < 4 {
        eprintln!("usage: replay search <mode> <budget> <seed> | replay case <mode> <case>");
        std::process::exit(2);
    }
    let mode = args[2].as_str();
    if args[1] == "ref" {
        // replay ref formula <text>: the REFERENCE meaning of a formula (independent evaluator; real tokenizer + reference parser)
        let src = args[3].as_str();
        let toks = match SymbolicBDD::tokenize(&mut src.as_bytes(), None) {
            Ok(t) => t,
            Err(_) => {
                println!("{{\"ok\":false}}");
                return;
            }
        };
        let parsed = ref_sub(&toks).and_then(|(t, r)| if r.first() == Some(&T::Eof) { to_f(&t) } else { None });
        match parsed {
            None => println!("{{\"ok\":false}}"),
            Some(f) => {
                let mut vars = vec![];
                names(&f, &mut vars);
                let mut fr = vec![];
                free(&f, &mut vec![], &mut fr);
                match sem(&f, &vars, &BTreeMap::new()) {
                    None => println!("{{\"ok\":false}}"),
                    Some(tt) => println!(
                        "{{\"ok\":true,\"vars\":[{}],\"free\":[{}],\"tt\":\"{}\"}}",
                        vars.iter().map(|v| format!("\"{}\"", esc(v))).collect::<Vec<_>>().join(","),
                        fr.iter().map(|v| format!("\"{}\"", esc(v))).collect::<Vec<_>>().join(","),
                        tts(&tt)
                    ),
                }
            }
        }
        return;
    }
    let found = if args[1] == "case" {
        let c = args[3].as_str();
        match mode {
            "ops" => case_ops(c),
            "quant" => case_quant(c),
            "count" => case_count(c),
            "model" => case_model(c),
            "retain" => case_retain(c),
            "fp" => case_fp(c),
            "formula" => case_formula(c),
            "parse" => case_parse(c),
            "lex" => case_lex(c),
            "history" => if c == "big" { case_history_big(c) } else if c == "define" { case_history_define(c) } else if c == "names" { case_history_names(c) } else if c == "quantpair" { case_history_quantpair(c) } else { case_history(c) },
            "index" => case_index(c),
            _ => std::process::exit(2),
        }
    } else {
        let budget: usize = args[3].parse().unwrap_or(2000);
        let seed: u64 = args.get(4).and_then(|s| s.parse().ok()).unwrap_or(1);
        match mode {
            "ops" => search_ops(budget, seed),
            "quant" => search_quant(budget, seed),
            "count" => search_count(budget, seed),
            "model" => search_model(budget, seed),
            "retain" => search_retain(budget, seed),
            "fp" => search_fp(budget, seed),
            "formula" => search_formula(budget, seed),
            "parse" => search_parse(budget, seed),
            "lex" => search_lex(budget, seed),
            "history" => search_history(budget, seed),
            "index" => search_index(budget, seed),
            _ => std::process::exit(2),
        }
    };
    match found {
        Some(f) => {
            report(mode, &f);
            std::process::exit(1);
        }
        None => {
            println!("{{\"mode\":\"{mode}\",\"case\":null,\"checked\":{}}}", CHECKED.load(std::sync::atomic::Ordering::Relaxed));
        }
    }
}
