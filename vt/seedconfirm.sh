#!/bin/bash
# usage: seedconfirm.sh <seed dir containing patch.diff + demo_test.rs>   -> prints CONFIRMED / REJECTED
# Confirms, in a scratch worktree of /repo HEAD: (1) patch applies, (2) full suite still passes,
# (3) demo fails with the patch, (4) demo passes without it.
set -u
SD="$1"; NAME=$(basename "$SD")
WT=/tmp/seedwt_$NAME
export CARGO_TARGET_DIR=/tmp/seed_target
git -C /repo worktree remove --force "$WT" >/dev/null 2>&1
git -C /repo worktree add --detach "$WT" HEAD >/dev/null 2>&1 || { echo "REJECTED $NAME: cannot create worktree"; exit 1; }
cd "$WT"
res=""
if ! git apply --check "$SD/patch.diff" 2>/dev/null; then res="REJECTED $NAME: patch does not apply to HEAD";
else
  git apply "$SD/patch.diff"
  suite=$(cargo test --workspace --no-fail-fast --offline 2>&1 | grep -E "^test result" | awk '{p+=$4; f+=$6} END {print p" "f}')
  cp "$SD/demo_test.rs" tests/seed_demo.rs
  with=$(cargo test --offline --test seed_demo 2>&1 | grep -E "^test result" | awk '{p+=$4; f+=$6} END {print p" "f}')
  git checkout -- src 2>/dev/null; git apply -R "$SD/patch.diff" 2>/dev/null
  git checkout -- . 2>/dev/null
  cp "$SD/demo_test.rs" tests/seed_demo.rs
  without=$(cargo test --offline --test seed_demo 2>&1 | grep -E "^test result" | awk '{p+=$4; f+=$6} END {print p" "f}')
  sp=${suite% *}; sf=${suite#* }; wf=${with#* }; wof=${without#* }; wop=${without% *}
  if [ "$sp" = "31" ] && [ "$sf" = "0" ] && [ -n "$wf" ] && [ "$wf" != "0" ] && [ "$wof" = "0" ] && [ "$wop" != "0" ]; then
     res="CONFIRMED $NAME: suite(passed failed)=$suite demo-with-patch=$with demo-without=$without"
  else
     res="REJECTED $NAME: suite=$suite demo-with-patch=$with demo-without=$without"
  fi
fi
cd /; git -C /repo worktree remove --force "$WT" >/dev/null 2>&1
echo "$res"
