"""developer tool: which arm of the outermost `match` of a generated function fails to verify?

  python3 -m vt.bisect <file.rs> <Type::fn_name> [arm substrings...]
Every arm but one is replaced by `{ assume(false); unreached() }`; prints the verdict per arm.
"""
import re
import subprocess
import sys

from . import rustlex as L


def arms_of_first_match(toks, lo, hi):
    i = lo
    while not (toks[i].kind == "ident" and toks[i].text == "match"):
        i += 1
    j = i
    d = 0
    while True:
        t = toks[j]
        if t.kind == "punct" and t.text in ("(", "["):
            d += 1
        elif t.kind == "punct" and t.text in (")", "]"):
            d -= 1
        elif t.kind == "punct" and t.text == "{" and d == 0:
            break
        j += 1
    close = L.match_close(toks, j)
    arms = []
    k = j + 1
    while k < close:
        # pattern up to `=>` at depth 0
        d = 0
        p = k
        while not (toks[p].kind == "punct" and toks[p].text == "=>" and d == 0):
            if toks[p].kind == "punct" and toks[p].text in L.OPEN:
                d += 1
            elif toks[p].kind == "punct" and toks[p].text in L.CLOSE:
                d -= 1
            p += 1
            if p >= close:
                return arms
        e = p + 1
        while toks[e].kind in L.TRIVIA:
            e += 1
        if toks[e].kind == "punct" and toks[e].text == "{" and not _is_annot(toks, e):
            end = L.match_close(toks, e) + 1
        else:
            d = 0
            end = e
            while end < close:
                t = toks[end]
                if t.kind == "punct" and t.text in L.OPEN:
                    d += 1
                elif t.kind == "punct" and t.text in L.CLOSE:
                    d -= 1
                elif t.kind == "punct" and t.text == "," and d == 0:
                    break
                end += 1
        arms.append((k, p, e, end))
        k = end
        while k < close and (toks[k].kind in L.TRIVIA or (toks[k].kind == "punct" and toks[k].text == ",")):
            k += 1
    return arms


def _is_annot(toks, e):
    return False


def failing_arms(path, fname, timeout=300):
    """verify `fname` once per arm of its outermost match with every other arm assumed away.
    returns list of (arm pattern text, verified: bool|None)"""
    short = fname.split("::")[-1]
    src = open(path).read()
    toks = L.lex(src)
    idx = None
    for i, t in enumerate(toks):
        if t.kind == "ident" and t.text == "fn":
            k = i + 1
            while toks[k].kind in L.TRIVIA:
                k += 1
            if toks[k].text == short:
                idx = i
    if idx is None:
        return []
    j = idx
    d = 0
    while True:
        t = toks[j]
        if t.kind == "punct" and t.text in ("(", "["):
            d += 1
        elif t.kind == "punct" and t.text in (")", "]"):
            d -= 1
        elif t.kind == "punct" and t.text == "{" and d == 0:
            break
        j += 1
    close = L.match_close(toks, j)
    arms = arms_of_first_match(toks, j, close)
    out = []
    bpath = path.replace(".rs", "_bisect.rs")
    for n, (k, p, e, end) in enumerate(arms):
        res = []
        last = 0
        for m, (k2, p2, e2, end2) in enumerate(arms):
            res.append(L.text(toks[last:e2]))
            if m == n:
                res.append(L.text(toks[e2:end2]))
            else:
                res.append("{ assume(false); vstd::pervasive::unreached() }")
            last = end2
        res.append(L.text(toks[last:]))
        open(bpath, "w").write("".join(res))
        try:
            r = subprocess.run(["verus", bpath, "--verify-function", fname, "--verify-root"], capture_output=True, text=True, timeout=timeout)
            verdict = re.findall(r"verification results:: (\d+) verified, (\d+) errors", r.stdout + r.stderr)
            ok = bool(verdict) and verdict[0][1] == "0" and verdict[0][0] != "0"
            if not verdict:
                ok = None
        except subprocess.TimeoutExpired:
            ok = None
        out.append((L.sigtext(toks[k:p]), ok))
    return out


def main():
    for pat, ok in failing_arms(sys.argv[1], sys.argv[2]):
        print("ok  " if ok else ("FAIL" if ok is False else "??  "), pat[:90])


if __name__ == "__main__":
    main()
