#!/bin/sh
# developer helper: build the unit into /tmp/vw/u.rs and run verus on it
mkdir -p /tmp/vw
cd /verif && python3 -c "
import sys
from vt.build import build
import os
b=build(os.environ.get('VERIF_REPO','/repo'), os.environ.get('VERIF_UNIT','/verif/unit'))
open('/tmp/vw/u.rs','w').write(b.text)
" || exit 2
cd /tmp/vw && verus u.rs --multiple-errors 20 "$@" 2>&1 | grep -v '^$' | tail -${TAIL:-80}
