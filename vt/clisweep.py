"""Bounded stand-in for `main()` and the printers of src/bin/rsbdd.rs (C12): run the real binary, built from
/repo's current tree, over formulas x orderings x option sets and require that it never panics (exit code 101 /
'panicked at').  Labelled bounded; never counted as proved."""
import itertools
import re
import os
import random
import subprocess
import tempfile

VERIF = os.path.dirname(os.path.dirname(os.path.abspath(__file__)))
WORK = os.path.join(VERIF, ".work")

FORMULAS = [
    "a", "a & b", "-a | b", "a ^ b ^ c", "true", "false", "[a, b, c] = 1", "[a, b] <= [c]", "[a, b] >= [c, d]",
    "exists a # a & b", "forall a, b # a | b | c", "lfp X # a | X", "gfp X # a & X", "if a then b else c",
    "{r} | a", "a <= b", "[a] = 99999999999999999999", "[a] > 9223372036854775807", "-(a b c", "", "\"only a comment\"",
    "(", "a &", "[a, b", "exists # a", "exists a #", "a \"c\" b", "٣", "a\x00b", "[a,] < 0", "mu X # (exists X # X)",
    "[a, b] < [a]", "[[a] = 1, b] >= 1", "a nand b nor c", "all a # [a, b] = [b]", "if [a,b]=1 then {x} else -c",
]
ORDERINGS = [None, "a", "b a", "x a", "c b a", "a a b", "z a b", ", ; a", "", "\"c\" a"]
OPTSETS = [
    [], ["-t"], ["-v"], ["-m", "-t"], ["-t", "-f", "true"], ["-t", "-f", "false"], ["-t", "-f", "any"], ["-t", "-c", "true"],
    ["-t", "-c", "false"], ["-t", "-b", "2"], ["-r"], ["-p", "@PT@"], ["-d", "@DOT@"], ["-d", "@DOT@", "-f", "true"],
    ["-d", "@DOT@", "-f", "false"], ["-m", "-v", "-t", "-p", "@PT@", "-d", "@DOT@"], ["-t", "-v", "-f", "T", "-c", "F"],
]


def build_binary(repo):
    td = os.path.join(WORK, "repo-target")
    env = dict(os.environ, CARGO_NET_OFFLINE="true")
    p = subprocess.run(["cargo", "build", "--offline", "--quiet", "--bin", "rsbdd", "--manifest-path", os.path.join(repo, "Cargo.toml"),
                        "--target-dir", td], env=env, capture_output=True, text=True, timeout=3600)
    if p.returncode != 0:
        return None, p.stderr[-1500:]
    return os.path.join(td, "debug", "rsbdd"), ""


def run_case(binary, formula, ordering, opts, channel, tmp):
    args = [binary]
    pt, dot = os.path.join(tmp, "pt.dot"), os.path.join(tmp, "bdd.dot")
    args += [o.replace("@PT@", pt).replace("@DOT@", dot) for o in opts]
    stdin = None
    if ordering is not None:
        op = os.path.join(tmp, "ord.txt")
        with open(op, "w") as f:
            f.write(ordering)
        args += ["-o", op]
    if channel == "evaluate":
        if "\x00" in formula:
            return None
        args += ["--evaluate=" + formula]
    elif channel == "file":
        fp = os.path.join(tmp, "in.txt")
        with open(fp, "wb") as f:
            f.write(formula.encode("utf-8", "surrogateescape"))
        args += [fp]
    else:
        stdin = formula.encode("utf-8", "surrogateescape")
    try:
        p = subprocess.run(args, input=stdin, capture_output=True, timeout=20)
    except subprocess.TimeoutExpired:
        return None
    err = p.stderr.decode("utf-8", "replace")
    if p.returncode == 101 or "panicked at" in err:
        line = [l for l in err.split("\n") if "panicked at" in l]
        nxt = err.split("panicked at", 1)[1].split("\n")[1] if "panicked at" in err and "\n" in err.split("panicked at", 1)[1] else ""
        return {"mode": "cli", "case": json_case(formula, ordering, opts, channel), "expected": "exit 0 or an error exit with a message, never a panic",
                "actual": (line[0] if line else "exit 101") + " " + nxt.strip()}
    return None


def json_case(formula, ordering, opts, channel):
    import json
    return json.dumps({"formula": formula, "ordering": ordering, "options": opts, "channel": channel}, ensure_ascii=False)


def sweep(repo, budget, seed, binary=None):
    """returns (found | None, cases checked, error)"""
    if binary is None:
        binary, err = build_binary(repo)
        if binary is None:
            return None, 0, err
    rnd = random.Random(seed)
    checked = 0
    with tempfile.TemporaryDirectory(prefix="clisweep", dir=WORK) as tmp:
        cases = []
        for f in FORMULAS:
            for o in OPTSETS:
                cases.append((f, None, o, "evaluate"))
        for f in FORMULAS[:16]:
            for od in ORDERINGS[1:]:
                cases.append((f, od, ["-t"], "evaluate"))
                cases.append((f, od, ["-v", "-r"], "stdin"))
        for f in FORMULAS:
            cases.append((f, None, ["-t"], "file"))
            cases.append((f, None, ["-t", "-m"], "stdin"))
        # invalid UTF-8 via file / stdin
        for ch in ("file", "stdin"):
            cases.append(("a & \udcff\udcfe b", None, ["-t"], ch))
        extra = max(0, budget // 10)
        for _ in range(extra):
            cases.append((rnd.choice(FORMULAS), rnd.choice(ORDERINGS), rnd.choice(OPTSETS), rnd.choice(["evaluate", "file", "stdin"])))
        from concurrent.futures import ThreadPoolExecutor

        def one(ic):
            i, (f, od, o, ch) = ic
            d = os.path.join(tmp, str(i % 64) + "_" + str(i))
            os.makedirs(d, exist_ok=True)
            return run_case(binary, f, od, o, ch, d)

        with ThreadPoolExecutor(max_workers=12) as ex:
            for r in ex.map(one, list(enumerate(cases))):
                checked += 1
                if r is not None:
                    return r, checked, ""
    return None, checked, ""


def replay_case(repo, case):
    import json
    c = json.loads(case)
    binary, err = build_binary(repo)
    if binary is None:
        return None, err
    with tempfile.TemporaryDirectory(prefix="clisweep", dir=WORK) as tmp:
        return run_case(binary, c["formula"], c["ordering"], c["options"], c["channel"], tmp), ""


# ------------------------------------------------------------------ C11, CLI half: orderings change the shape, not the meaning

ORDER_FORMULAS = ["a & b", "a | -b & c", "a ^ b ^ c", "[a, b, c] = 1", "exists b # (a & b) | c", "forall a # a | b", "if a then b else c",
                  "lfp X # a | (X & b)", "[a, b] <= [c]", "c => (b => a)", "-(a <=> c) | b", "a"]
ORDER_FILES = ["a b c", "c b a", "b", "c a", "x a y b z c", "a a b", "c, b; a", "z", "b \"comment\" a", "X c"]


def _table(stdout):
    """parse `rsbdd -t` output into (header names, set of satisfying total assignments as frozensets of true names)"""
    rows = [l for l in stdout.split("\n") if l.startswith("|")]
    if len(rows) < 2:
        return None
    hdr = [c.strip() for c in rows[0].strip("|").split("|")]
    names = hdr[:-1]
    sat = set()
    for l in rows[2:]:
        cells = [c.strip() for c in l.strip("|").split("|")]
        if len(cells) != len(hdr):
            return None
        if cells[-1] != "True":
            continue
        free = [i for i, c in enumerate(cells[:-1]) if c == "Any"]
        for bits in itertools.product([False, True], repeat=len(free)):
            asg = set(n for n, c in zip(names, cells[:-1]) if c == "True")
            asg |= set(names[i] for i, bv in zip(free, bits) if bv)
            sat.add(frozenset(asg))
    return names, sat


def _run(binary, args, tmp):
    try:
        p = subprocess.run([binary] + args, capture_output=True, timeout=20)
    except subprocess.TimeoutExpired:
        return None
    return p.returncode, p.stdout.decode("utf-8", "replace"), p.stderr.decode("utf-8", "replace")


def order_case(repo, case):
    import json
    c = json.loads(case)
    global ORDER_FORMULAS, ORDER_FILES
    sf, so = ORDER_FORMULAS, ORDER_FILES
    try:
        ORDER_FORMULAS, ORDER_FILES = [c["formula"]], [c["ordering"]]
        r, n, err = sweep_order(repo, 0, 0)
    finally:
        ORDER_FORMULAS, ORDER_FILES = sf, so
    return r, err


def sweep_order(repo, budget, seed, binary=None):
    """for every formula x ordering file: (1) the table under the ordering denotes the same set of satisfying assignments of the
    same names as under the default order; (2) names listed in the file appear in the header in file order; (3) exporting the
    order with -r and feeding it back with -o reproduces the identical table.  returns (found | None, checked, error)"""
    import json
    if binary is None:
        binary, err = build_binary(repo)
        if binary is None:
            return None, 0, err
    checked = 0
    with tempfile.TemporaryDirectory(prefix="cliorder", dir=WORK) as tmp:
        for f in ORDER_FORMULAS:
            base = _run(binary, ["-t", "--evaluate=" + f], tmp)
            if base is None or base[0] != 0:
                continue
            tb = _table(base[1])
            if tb is None:
                continue
            for od in ORDER_FILES:
                checked += 1
                case = json.dumps({"formula": f, "ordering": od, "options": ["-t"], "channel": "order-roundtrip"})
                op = os.path.join(tmp, "o.txt")
                open(op, "w").write(od)
                r1 = _run(binary, ["-t", "-o", op, "--evaluate=" + f], tmp)
                if r1 is None:
                    continue
                if r1[0] == 101 or "panicked at" in r1[2]:
                    return {"mode": "cliorder", "case": case, "expected": "a table", "actual": "panic: " + r1[2][:300]}, checked, ""
                t1 = _table(r1[1])
                if r1[0] != 0 or t1 is None:
                    return {"mode": "cliorder", "case": case, "expected": "a table (the formula is valid input under any ordering)", "actual": f"exit {r1[0]}: {r1[2][:200]}"}, checked, ""
                names = sorted(set(tb[0]) | set(t1[0]))
                if sorted(tb[0]) != sorted(t1[0]) or tb[1] != t1[1]:
                    return {"mode": "cliorder", "case": case, "expected": f"same function of the same names as the default order: columns {tb[0]}, {len(tb[1])} satisfying assignments",
                            "actual": f"columns {t1[0]}, {len(t1[1])} satisfying assignments"}, checked, ""
                listed = [w for w in re.findall(r"[\w']+", re.sub(r'"[^"]*"', " ", od))]
                pos = [t1[0].index(n) for n in dict.fromkeys(listed) if n in t1[0]]
                if pos != sorted(pos):
                    return {"mode": "cliorder", "case": case, "expected": "columns of listed variables in file order", "actual": f"header {t1[0]}"}, checked, ""
                r2 = _run(binary, ["-r", "-o", op, "--evaluate=" + f], tmp)
                if r2 is None or r2[0] != 0:
                    continue
                exported = "\n".join(l for l in r2[1].split("\n") if l and not l.startswith("|"))
                op2 = os.path.join(tmp, "o2.txt")
                open(op2, "w").write(exported)
                r3 = _run(binary, ["-t", "-o", op2, "--evaluate=" + f], tmp)
                if r3 is None:
                    continue
                if r3[1] != r1[1]:
                    return {"mode": "cliorder", "case": case, "expected": "feeding the exported order back reproduces the identical table",
                            "actual": "tables differ:\n" + r1[1][:300] + "\n--- vs ---\n" + r3[1][:300]}, checked, ""
    return None, checked, ""


# ------------------------------------------------------------------ C07, CLI half: `rsbdd -m -t` prints exactly one satisfying row

MODEL_FORMULAS = ORDER_FORMULAS + ["false", "true", "a & -a", "[a, b] > 2", "[a, b, c] >= 2", "exists a # a", "-a & -b", "a | b | c", "(a & b) | (c & d)"]


def sweep_model(repo, budget, seed, binary=None):
    import json
    if binary is None:
        binary, err = build_binary(repo)
        if binary is None:
            return None, 0, err
    checked = 0
    with tempfile.TemporaryDirectory(prefix="climodel", dir=WORK) as tmp:
        for f in MODEL_FORMULAS:
            for filt in ([], ["-f", "true"]):
                checked += 1
                case = json.dumps({"formula": f, "ordering": None, "options": ["-m", "-t"] + filt, "channel": "model"})
                base = _run(binary, ["-t", "--evaluate=" + f], tmp)
                mod = _run(binary, ["-m", "-t"] + filt + ["--evaluate=" + f], tmp)
                if base is None or mod is None or base[0] != 0:
                    continue
                if mod[0] == 101 or "panicked at" in mod[2]:
                    return {"mode": "climodel", "case": case, "expected": "a table", "actual": "panic: " + mod[2][:300]}, checked, ""
                tb, tm = _table(base[1]), _table(mod[1])
                if tb is None or tm is None:
                    continue
                rows_true = [l for l in mod[1].split("\n")[2:] if l.startswith("|") and l.rstrip().endswith("True  |")]
                if len(tb[1]) == 0:
                    if rows_true:
                        return {"mode": "climodel", "case": case, "expected": "no satisfying row for an unsatisfiable formula", "actual": mod[1][:300]}, checked, ""
                    continue
                if len(rows_true) != 1:
                    return {"mode": "climodel", "case": case, "expected": "exactly one satisfying row", "actual": mod[1][:400]}, checked, ""
                if not tm[1] <= tb[1]:
                    return {"mode": "climodel", "case": case, "expected": "the model row satisfies the formula", "actual": mod[1][:400]}, checked, ""
    return None, checked, ""


def model_case(repo, case):
    import json
    c = json.loads(case)
    global MODEL_FORMULAS
    sf = MODEL_FORMULAS
    try:
        MODEL_FORMULAS = [c["formula"]]
        r, n, err = sweep_model(repo, 0, 0)
    finally:
        MODEL_FORMULAS = sf
    return r, err
