"""Bounded stand-in for `main()` and the printers of src/bin/rsbdd.rs (C12): run the real binary, built from
/repo's current tree, over formulas x orderings x option sets and require that it never panics (exit code 101 /
'panicked at').  Labelled bounded; never counted as proved."""
import itertools
import re
import os
import random
import subprocess
import tempfile

VERIF = os.path.dirname(os.path.dirname(os.path.abspath(__file__)))
WORK = os.path.join(VERIF, ".work")

FORMULAS = [
    "a", "a & b", "-a | b", "a ^ b ^ c", "true", "false", "[a, b, c] = 1", "[a, b] <= [c]", "[a, b] >= [c, d]",
    "exists a # a & b", "forall a, b # a | b | c", "lfp X # a | X", "gfp X # a & X", "if a then b else c",
    "{r} | a", "a <= b", "[a] = 99999999999999999999", "[a] > 9223372036854775807", "-(a b c", "", "\"only a comment\"",
    "(", "a &", "[a, b", "exists # a", "exists a #", "a \"c\" b", "٣", "a\x00b", "[a,] < 0", "mu X # (exists X # X)",
    "[a, b] < [a]", "[[a] = 1, b] >= 1", "a nand b nor c", "all a # [a, b] = [b]", "if [a,b]=1 then {x} else -c",
    "[a] = ९९९९९९९", "[a] = 1٣٣٣٣٣٣٣٣٣٣٣", "[a, b] >= ०००००००००", "ééé & b", "größe | länge", "变量 => b", "exists é # (é & ñandú) | ü",
    "a & if a then b else c", "a | [a, b] >= 1", "b | [a, b|c] <= [b, c]", "(a & b) | if (a & b) then c else (a & b)", "exists a # [a, a & b] = [a & b]",
    "position_of_queen_one & -position_of_queen_two | q",
    "(gfp X # X & a) & X", "X & (gfp X # X & a)", "(exists x # (x & a)) & (b | x)", "nu X # ((mu X # (X | a)) & X)", "if a then b else c",
]
ORDERINGS = [None, "a", "b a", "x a", "c b a", "a a b", "z a b", ", ; a", "", "\"c\" a"]
OPTSETS = [
    [], ["-t"], ["-v"], ["-m", "-t"], ["-t", "-f", "true"], ["-t", "-f", "false"], ["-t", "-f", "any"], ["-t", "-c", "true"],
    ["-t", "-c", "false"], ["-t", "-b", "2"], ["-t", "-b", "1"], ["-b", "3"], ["-b", "0"], ["-b", "1", "-v"], ["-r"], ["-p", "@PT@"], ["-d", "@DOT@"], ["-d", "@DOT@", "-f", "true"],
    ["-d", "@DOT@", "-f", "false"], ["-m", "-v", "-t", "-p", "@PT@", "-d", "@DOT@"], ["-t", "-v", "-f", "T", "-c", "F"],
]


def build_binary(repo):
    td = os.path.join(WORK, "repo-target")
    env = dict(os.environ, CARGO_NET_OFFLINE="true")
    p = subprocess.run(["cargo", "build", "--offline", "--quiet", "--bin", "rsbdd", "--manifest-path", os.path.join(repo, "Cargo.toml"),
                        "--target-dir", td], env=env, capture_output=True, text=True, timeout=3600)
    if p.returncode != 0:
        return None, p.stderr[-1500:]
    return os.path.join(td, "debug", "rsbdd"), ""


def run_case(binary, formula, ordering, opts, channel, tmp):
    args = [binary]
    pt, dot = os.path.join(tmp, "pt.dot"), os.path.join(tmp, "bdd.dot")
    args += [o.replace("@PT@", pt).replace("@DOT@", dot) for o in opts]
    stdin = None
    if ordering is not None:
        op = os.path.join(tmp, "ord.txt")
        with open(op, "w") as f:
            f.write(ordering)
        args += ["-o", op]
    if channel == "evaluate":
        if "\x00" in formula:
            return None
        args += ["--evaluate=" + formula]
    elif channel == "file":
        fp = os.path.join(tmp, "in.txt")
        with open(fp, "wb") as f:
            f.write(formula.encode("utf-8", "surrogateescape"))
        args += [fp]
    else:
        stdin = formula.encode("utf-8", "surrogateescape")
    try:
        p = subprocess.run(args, input=stdin, capture_output=True, timeout=20)
    except subprocess.TimeoutExpired:
        return None
    err = p.stderr.decode("utf-8", "replace")
    if p.returncode == 101 or "panicked at" in err:
        line = [l for l in err.split("\n") if "panicked at" in l]
        nxt = err.split("panicked at", 1)[1].split("\n")[1] if "panicked at" in err and "\n" in err.split("panicked at", 1)[1] else ""
        return {"mode": "cli", "case": json_case(formula, ordering, opts, channel), "expected": "exit 0 or an error exit with a message, never a panic",
                "actual": (line[0] if line else "exit 101") + " " + nxt.strip()}
    return None


def json_case(formula, ordering, opts, channel):
    import json
    return json.dumps({"formula": formula, "ordering": ordering, "options": opts, "channel": channel}, ensure_ascii=False)


def sweep(repo, budget, seed, binary=None):
    """returns (found | None, cases checked, error)"""
    if binary is None:
        binary, err = build_binary(repo)
        if binary is None:
            return None, 0, err
    rnd = random.Random(seed)
    checked = 0
    with tempfile.TemporaryDirectory(prefix="clisweep", dir=WORK) as tmp:
        cases = []
        for f in FORMULAS:
            for o in OPTSETS:
                cases.append((f, None, o, "evaluate"))
        for f in FORMULAS[:16]:
            for od in ORDERINGS[1:]:
                cases.append((f, od, ["-t"], "evaluate"))
                cases.append((f, od, ["-v", "-r"], "stdin"))
        for f in FORMULAS:
            cases.append((f, None, ["-t"], "file"))
            cases.append((f, None, ["-t", "-m"], "stdin"))
        # invalid UTF-8 via file / stdin
        for ch in ("file", "stdin"):
            cases.append(("a & \udcff\udcfe b", None, ["-t"], ch))
        extra = max(0, budget // 10)
        for _ in range(extra):
            cases.append((rnd.choice(FORMULAS), rnd.choice(ORDERINGS), rnd.choice(OPTSETS), rnd.choice(["evaluate", "file", "stdin"])))
        from concurrent.futures import ThreadPoolExecutor

        def one(ic):
            i, (f, od, o, ch) = ic
            d = os.path.join(tmp, str(i % 64) + "_" + str(i))
            os.makedirs(d, exist_ok=True)
            return run_case(binary, f, od, o, ch, d)

        with ThreadPoolExecutor(max_workers=12) as ex:
            for r in ex.map(one, list(enumerate(cases))):
                checked += 1
                if r is not None:
                    return r, checked, ""
    return None, checked, ""


def replay_case(repo, case):
    import json
    c = json.loads(case)
    binary, err = build_binary(repo)
    if binary is None:
        return None, err
    with tempfile.TemporaryDirectory(prefix="clisweep", dir=WORK) as tmp:
        return run_case(binary, c["formula"], c["ordering"], c["options"], c["channel"], tmp), ""


# ------------------------------------------------------------------ C11, CLI half: orderings change the shape, not the meaning

ORDER_FORMULAS = ["a & b", "a | -b & c", "a ^ b ^ c", "[a, b, c] = 1", "exists b # (a & b) | c", "forall a # a | b", "if a then b else c",
                  "lfp X # a | (X & b)", "[a, b] <= [c]", "c => (b => a)", "-(a <=> c) | b", "a", "x' & (y | x)", "(a' ^ a) | b'"]
ORDER_FILES = ["a b c", "c b a", "b", "c a", "x a y b z c", "a a b", "c, b; a", "z", "b \"comment\" a", "X c", "x' y x", "y x'", "b' a' a", "_x x1 x' x",
               "c < b < a", "(c, b); a", "c.b.a", "c\tb\r\na", "[c] => b & a"]


def _table(stdout):
    """parse `rsbdd -t` output into (header names, set of satisfying total assignments as frozensets of true names)"""
    rows = [l for l in stdout.split("\n") if l.startswith("|")]
    if len(rows) < 2:
        return None
    hdr = [c.strip() for c in rows[0].strip("|").split("|")]
    names = hdr[:-1]
    sat = set()
    for l in rows[2:]:
        cells = [c.strip() for c in l.strip("|").split("|")]
        if len(cells) != len(hdr):
            return None
        if cells[-1] != "True":
            continue
        free = [i for i, c in enumerate(cells[:-1]) if c == "Any"]
        for bits in itertools.product([False, True], repeat=len(free)):
            asg = set(n for n, c in zip(names, cells[:-1]) if c == "True")
            asg |= set(names[i] for i, bv in zip(free, bits) if bv)
            sat.add(frozenset(asg))
    return names, sat


def _run(binary, args, tmp):
    try:
        p = subprocess.run([binary] + args, capture_output=True, timeout=20)
    except subprocess.TimeoutExpired:
        return None
    return p.returncode, p.stdout.decode("utf-8", "replace"), p.stderr.decode("utf-8", "replace")


def order_case(repo, case):
    import json
    c = json.loads(case)
    global ORDER_FORMULAS, ORDER_FILES
    sf, so = ORDER_FORMULAS, ORDER_FILES
    try:
        ORDER_FORMULAS, ORDER_FILES = [c["formula"]], [c["ordering"]]
        r, n, err = sweep_order(repo, 0, 0)
    finally:
        ORDER_FORMULAS, ORDER_FILES = sf, so
    return r, err


def sweep_order(repo, budget, seed, binary=None):
    """for every formula x ordering file: (1) the table under the ordering denotes the same set of satisfying assignments of the
    same names as under the default order; (2) names listed in the file appear in the header in file order; (3) exporting the
    order with -r and feeding it back with -o reproduces the identical table.  returns (found | None, checked, error)"""
    import json
    if binary is None:
        binary, err = build_binary(repo)
        if binary is None:
            return None, 0, err
    checked = 0
    with tempfile.TemporaryDirectory(prefix="cliorder", dir=WORK) as tmp:
        from . import replay as R
        rbin, rerr = R.build_replay()
        for f in ORDER_FORMULAS:
            tb = None
            if rbin is not None:
                # the reference meaning (independent evaluator), so that a defect shared by both runs of the binary is still seen
                try:
                    rj = json.loads(subprocess.run([rbin, "ref", "formula", f], capture_output=True, text=True, timeout=60).stdout.strip().split("\n")[-1])
                    if rj.get("ok"):
                        vars_, free, tt = rj["vars"], rj["free"], rj["tt"]
                        allasg = [frozenset(n for n, b in zip(free, bits) if b) for bits in itertools.product([False, True], repeat=len(free))]
                        tb = (free, set(a for a in allasg if tt[sum((1 << i) for i, n in enumerate(vars_) if n in a)] == "1"))
                except Exception:
                    tb = None
            if tb is None:
                base = _run(binary, ["-t", "--evaluate=" + f], tmp)
                if base is None or base[0] != 0:
                    continue
                tb = _table(base[1])
                if tb is None:
                    continue
            for od in ORDER_FILES:
                checked += 1
                case = json.dumps({"formula": f, "ordering": od, "options": ["-t"], "channel": "order-roundtrip"})
                op = os.path.join(tmp, "o.txt")
                open(op, "w").write(od)
                r1 = _run(binary, ["-t", "-o", op, "--evaluate=" + f], tmp)
                if r1 is None:
                    continue
                if r1[0] == 101 or "panicked at" in r1[2]:
                    return {"mode": "cliorder", "case": case, "expected": "a table", "actual": "panic: " + r1[2][:300]}, checked, ""
                t1 = _table(r1[1])
                if r1[0] != 0 or t1 is None:
                    return {"mode": "cliorder", "case": case, "expected": "a table (the formula is valid input under any ordering)", "actual": f"exit {r1[0]}: {r1[2][:200]}"}, checked, ""
                names = sorted(set(tb[0]) | set(t1[0]))
                if sorted(tb[0]) != sorted(t1[0]) or tb[1] != t1[1]:
                    return {"mode": "cliorder", "case": case, "expected": f"same function of the same names as the default order: columns {tb[0]}, {len(tb[1])} satisfying assignments",
                            "actual": f"columns {t1[0]}, {len(t1[1])} satisfying assignments"}, checked, ""
                listed = [w for w in re.findall(r"[\w']+", re.sub(r'"[^"]*"', " ", od))]
                pos = [t1[0].index(n) for n in dict.fromkeys(listed) if n in t1[0]]
                if pos != sorted(pos):
                    return {"mode": "cliorder", "case": case, "expected": "columns of listed variables in file order", "actual": f"header {t1[0]}"}, checked, ""
                r2 = _run(binary, ["-r", "-o", op, "--evaluate=" + f], tmp)
                if r2 is None or r2[0] != 0:
                    continue
                exported = "\n".join(l for l in r2[1].split("\n") if l and not l.startswith("|"))
                op2 = os.path.join(tmp, "o2.txt")
                open(op2, "w").write(exported)
                r3 = _run(binary, ["-t", "-o", op2, "--evaluate=" + f], tmp)
                if r3 is None:
                    continue
                if r3[1] != r1[1]:
                    return {"mode": "cliorder", "case": case, "expected": "feeding the exported order back reproduces the identical table",
                            "actual": "tables differ:\n" + r1[1][:300] + "\n--- vs ---\n" + r3[1][:300]}, checked, ""
    return None, checked, ""


# ------------------------------------------------------------------ C07, CLI half: `rsbdd -m -t` prints exactly one satisfying row

MODEL_FORMULAS = ORDER_FORMULAS + ["false", "true", "a & -a", "[a, b] > 2", "[a, b, c] >= 2", "exists a # a", "-a & -b", "a | b | c", "(a & b) | (c & d)"]


def sweep_model(repo, budget, seed, binary=None):
    """`rsbdd -m -t [-f true]` against the reference evaluator: exactly one satisfying row for a satisfiable formula (none for
    an unsatisfiable one), over the free variables, and every assignment the row covers satisfies the formula"""
    import json
    from . import replay as R
    global MODEL_FORMULAS
    if len(MODEL_FORMULAS) > 1:
        MODEL_FORMULAS = list(dict.fromkeys(MODEL_FORMULAS + TABLE_FORMULAS + ["(exists x # (x & a)) & (b | c)", "a | -a", "(a => b) | (b => a)", "[a, b] >= 0",
                                                               "forall a # exists b # (a ^ b)", "(mu X # (X | x)) & (a | b)"]))
    if binary is None:
        binary, err = build_binary(repo)
        if binary is None:
            return None, 0, err
    rbin, err = R.build_replay()
    if rbin is None:
        return None, 0, err
    checked = 0
    with tempfile.TemporaryDirectory(prefix="climodel", dir=WORK) as tmp:
        # a WIDE cube (70 variables: more columns than fit a machine word); the expected rows are known without a truth table
        nvar = 70
        lits = [(f"x{i:03}", i % 3 != 0) for i in range(nvar)]
        wide = " & ".join((n if pos else "-" + n) for n, pos in lits)
        want_cells = ["True" if pos else "False" for _, pos in lits]
        for opts in (["-m", "-t"], ["-t", "-f", "true"], ["-m", "-t", "-f", "true"]):
            checked += 1
            case = json.dumps({"formula": wide, "ordering": None, "options": opts, "channel": "model"})
            r = _run(binary, opts + ["--evaluate=" + wide], tmp)
            if r is None:
                continue
            if r[0] == 101 or "panicked at" in r[2]:
                return {"mode": "climodel", "case": case, "expected": "a table", "actual": "panic: " + r[2][:300]}, checked, ""
            pr = _rows(r[1])
            if r[0] != 0 or pr is None:
                return {"mode": "climodel", "case": case, "expected": "a truth table", "actual": f"exit {r[0]}: {r[1][:200]} {r[2][-200:]}"}, checked, ""
            trows = [x for x in pr[1] if x[-1] == "True"]
            if pr[0] != [n for n, _ in lits] or len(trows) != 1 or trows[0][:-1] != want_cells:
                return {"mode": "climodel", "case": case, "expected": "one satisfying row: every positive literal True, every negated one False (70 columns)",
                        "actual": (" ".join(pr[0][:6]) + " ... / " + " | ".join(" ".join(x[:6]) + " .. " + " ".join(x[62:]) for x in trows[:2]))[:400]}, checked, ""
        checked += 1
        r = _run(binary, ["-m", "-v", "--evaluate=" + wide], tmp)
        if r is not None:
            if r[0] == 101 or "panicked at" in r[2]:
                return {"mode": "climodel", "case": json.dumps({"formula": wide, "ordering": None, "options": ["-m", "-v"], "channel": "model"}), "expected": "a listing", "actual": "panic: " + r[2][:300]}, checked, ""
            ls = [l.strip() for l in r[1].split("\n") if l.strip().endswith(";")]
            if r[0] == 0 and (len(ls) != 1 or [x.strip() for x in ls[0][:-1].split(",")] != [n for n, pos in lits if pos]):
                return {"mode": "climodel", "case": json.dumps({"formula": wide, "ordering": None, "options": ["-m", "-v"], "channel": "model"}),
                        "expected": "one line naming exactly the positive literals", "actual": r[1][:400]}, checked, ""
        for f in MODEL_FORMULAS:
            try:
                ref = subprocess.run([rbin, "ref", "formula", f], capture_output=True, text=True, timeout=60)
            except subprocess.TimeoutExpired:
                continue
            try:
                rj = json.loads(ref.stdout.strip().split("\n")[-1])
            except Exception:
                continue
            if not rj.get("ok"):
                continue
            vars_, free, tt = rj["vars"], rj["free"], rj["tt"]
            allasg = [frozenset(n for n, b in zip(free, bits) if b) for bits in itertools.product([False, True], repeat=len(free))]
            sat = set(a for a in allasg if tt[sum((1 << i) for i, n in enumerate(vars_) if n in a)] == "1")
            for filt in ([], ["-f", "true"]):
                checked += 1
                case = json.dumps({"formula": f, "ordering": None, "options": ["-m", "-t"] + filt, "channel": "model"})
                mod = _run(binary, ["-m", "-t"] + filt + ["--evaluate=" + f], tmp)
                if mod is None:
                    continue
                if mod[0] == 101 or "panicked at" in mod[2]:
                    return {"mode": "climodel", "case": case, "expected": "a table", "actual": "panic: " + mod[2][:300]}, checked, ""
                pr = _rows(mod[1])
                if mod[0] != 0 or pr is None:
                    return {"mode": "climodel", "case": case, "expected": "a truth table", "actual": f"exit {mod[0]}: {mod[1][:200]} {mod[2][-200:]}"}, checked, ""
                names, rows = pr
                if sorted(names) != sorted(free):
                    return {"mode": "climodel", "case": case, "expected": f"columns = the free variables {free}", "actual": f"{names}"}, checked, ""
                true_rows = [r for r in rows if r[-1] == "True"]
                if not sat:
                    if true_rows:
                        return {"mode": "climodel", "case": case, "expected": "no satisfying row for an unsatisfiable formula", "actual": mod[1][:300]}, checked, ""
                    continue
                if len(true_rows) != 1:
                    return {"mode": "climodel", "case": case, "expected": "exactly one satisfying row", "actual": mod[1][:400]}, checked, ""
                covered = set(_expand(names, true_rows[0][:-1]))
                if not covered <= sat:
                    return {"mode": "climodel", "case": case, "expected": "every assignment the model row covers satisfies the formula", "actual": mod[1][:400]}, checked, ""
            # `-m -c X -t`: retain is applied first, then the model is taken: the model row must be one row whose assignments
            # satisfy what `-c X -t` alone prints (the retained diagram), none if that is unsatisfiable
            for cx in ("true", "false"):
                checked += 1
                case = json.dumps({"formula": f, "ordering": None, "options": ["-m", "-c", cx, "-t"], "channel": "model"})
                base = _run(binary, ["-c", cx, "-t", "--evaluate=" + f], tmp)
                mc = _run(binary, ["-m", "-c", cx, "-t", "--evaluate=" + f], tmp)
                if base is None or mc is None:
                    continue
                if mc[0] == 101 or "panicked at" in mc[2]:
                    return {"mode": "climodel", "case": case, "expected": "a table", "actual": "panic: " + mc[2][:300]}, checked, ""
                pb, pm = _rows(base[1]), _rows(mc[1])
                if base[0] != 0 or mc[0] != 0 or pb is None or pm is None:
                    continue
                bsat = set()
                for cells in pb[1]:
                    if cells[-1] == "True":
                        bsat |= set(_expand(pb[0], cells[:-1]))
                mtrue = [r_ for r_ in pm[1] if r_[-1] == "True"]
                if len(mtrue) != (1 if bsat else 0):
                    return {"mode": "climodel", "case": case, "expected": f"{1 if bsat else 0} satisfying row(s): the model of what `-c {cx} -t` prints", "actual": mc[1][:400]}, checked, ""
                for r_ in mtrue:
                    if not set(_expand(pm[0], r_[:-1])) <= bsat:
                        return {"mode": "climodel", "case": case, "expected": f"the model row covers only assignments that `-c {cx} -t` lists as satisfying", "actual": mc[1][:400]}, checked, ""
            # `-m -v`: the listing of the model = one line (none for an unsatisfiable formula) whose assignments satisfy the formula
            checked += 1
            case = json.dumps({"formula": f, "ordering": None, "options": ["-m", "-v"], "channel": "model"})
            mv = _run(binary, ["-m", "-v", "--evaluate=" + f], tmp)
            if mv is None:
                continue
            if mv[0] == 101 or "panicked at" in mv[2]:
                return {"mode": "climodel", "case": case, "expected": "a listing", "actual": "panic: " + mv[2][:300]}, checked, ""
            lines = [l.strip() for l in mv[1].split("\n") if l.strip().endswith(";")]
            if len(lines) != (1 if sat else 0):
                return {"mode": "climodel", "case": case, "expected": f"{1 if sat else 0} line(s): the model of the formula", "actual": mv[1][:400]}, checked, ""
            for line in lines:
                items = [x.strip() for x in line[:-1].split(",") if x.strip()]
                tn = [x for x in items if not x.endswith("*")]
                an = [x[:-1] for x in items if x.endswith("*")]
                for bits in itertools.product([False, True], repeat=len(an)):
                    a = frozenset(tn) | frozenset(n for n, b in zip(an, bits) if b)
                    if a not in sat:
                        return {"mode": "climodel", "case": case, "expected": "every assignment the listed model covers satisfies the formula", "actual": mv[1][:400]}, checked, ""
    return None, checked, ""


def model_case(repo, case):
    import json
    c = json.loads(case)
    global MODEL_FORMULAS
    sf = MODEL_FORMULAS
    try:
        MODEL_FORMULAS = [c["formula"]]
        r, n, err = sweep_model(repo, 0, 0)
    finally:
        MODEL_FORMULAS = sf
    return r, err


# ------------------------------------------------------------------ the printed answer vs an independent evaluation (main() glue + printers)

TABLE_FORMULAS = ORDER_FORMULAS + [
    "false", "true", "a & -a", "a | -a", "[a, b] > 2", "[a, b, c] >= 2", "exists a # a", "-a & -b", "(a & b) | (c & d)",
    "exists x # (x & a) | b", "(exists x # (x & a)) & (b | c)", "(gfp X # X & a) & X", "X & (gfp X # X & a)", "a & (exists b # b | -a)",
    "position_of_queen_one & -position_of_queen_two | short", "a_very_long_variable_name_indeed ^ a_very_long_variable_name_in_fact",
    "(a | -b) & c", "(a & -b) | c", "(forall q # q | p) & -r", "exists x # (x & (y | z))", "nu X # ((mu X # (X | a)) & X)",
    "exists x # ((forall x # (x | a)) & x)", "[a, b] < 0", "[a] <= 18446744073709551615", "a <= b <= c", "if b then a & c else c",
    "lfp X # ([a] <= [X, b])", "mu X # (a | ([b] <= [X]))", "gfp X # ([X, a] >= [b])",
]


def _rows(stdout):
    rows = [l for l in stdout.split("\n") if l.startswith("|")]
    if len(rows) < 2:
        return None
    hdr = [c.strip() for c in rows[0].strip("|").split("|")]
    out = []
    for l in rows[2:]:
        cells = [c.strip() for c in l.strip("|").split("|")]
        if len(cells) != len(hdr):
            return None
        out.append(cells)
    return hdr[:-1], out


def _expand(names, cells):
    free = [i for i, c in enumerate(cells) if c == "Any"]
    for bits in itertools.product([False, True], repeat=len(free)):
        asg = set(n for n, c in zip(names, cells) if c == "True")
        asg |= set(names[i] for i, bv in zip(free, bits) if bv)
        yield frozenset(asg)


def _random_formulas(n, seed):
    """seeded random formulas over up to 6 names (connectives, if-then-else, counting, quantifiers): richer diagrams for the
    table checks than the fixed list (skipped levels -> Any cells, shared sub-diagrams, bound names)"""
    rng = random.Random(seed * 7919 + 13)
    names = ["p", "q", "r", "s", "t", "u"]

    def g(d, pool):
        k = rng.randrange(10) if d > 0 else 0
        if k <= 1:
            return rng.choice(pool)
        if k == 2:
            return "-" + g(d - 1, pool)
        if k <= 5:
            return "(" + g(d - 1, pool) + " " + rng.choice(["&", "|", "^", "=>", "<=>", "&", "|"]) + " " + g(d - 1, pool) + ")"
        if k == 6:
            return "(if " + g(d - 1, pool) + " then " + g(d - 1, pool) + " else " + g(d - 1, pool) + ")"
        if k == 7:
            m = rng.randrange(1, 4)
            return "([" + ", ".join(g(d - 1, pool) for _ in range(m)) + "] " + rng.choice(["=", "<=", ">=", "<", ">"]) + " " + str(rng.randrange(0, m + 1)) + ")"
        v = rng.choice(pool)
        return "(" + rng.choice(["exists", "forall"]) + " " + v + " # " + g(d - 1, pool) + ")"
    out = []
    for i in range(n):
        pool = names[:rng.randrange(2, 7)]
        out.append(g(3 + i % 2, pool))
    return out


def sweep_table(repo, budget, seed, binary=None, aspect=None):
    """`rsbdd -t [-f F]` and `-v` against the reference evaluator of the replay crate: header = the free variables; rows are
    disjoint, their result column is right on every assignment they cover, and they cover all / the satisfying / the
    falsifying assignments for filter any / true / false; -v lists exactly the satisfying assignments over free names.
    aspect = "vars": report only what concerns the variable columns / names (run for C09); "panic": only panics."""
    rows_too = aspect is None
    import json
    from . import replay as R
    if binary is None:
        binary, err = build_binary(repo)
        if binary is None:
            return None, 0, err
    rbin, err = R.build_replay()
    if rbin is None:
        return None, 0, err
    checked = 0
    with tempfile.TemporaryDirectory(prefix="clitable", dir=WORK) as tmp:
        fixed = list(TABLE_FORMULAS)
        extra = [x for x in _random_formulas(budget // 75, seed) if x not in fixed] if budget else []
        for f in fixed + extra:
            try:
                ref = subprocess.run([rbin, "ref", "formula", f], capture_output=True, text=True, timeout=60)
            except subprocess.TimeoutExpired:
                continue
            try:
                rj = json.loads(ref.stdout.strip().split("\n")[-1])
            except Exception:
                continue
            if not rj.get("ok"):
                continue
            vars_, free, tt = rj["vars"], rj["free"], rj["tt"]
            allasg = [frozenset(n for n, b in zip(free, bits) if b) for bits in itertools.product([False, True], repeat=len(free))]

            def value(asg):
                row = sum((1 << i) for i, n in enumerate(vars_) if n in asg)
                return tt[row] == "1"
            sat = set(a for a in allasg if value(a))
            for filt in (None, "true", "false", "any"):
                checked += 1
                opts = ["-t"] + (["-f", filt] if filt else [])
                case = json.dumps({"formula": f, "ordering": None, "options": opts, "channel": "table"})
                r = _run(binary, opts + ["--evaluate=" + f], tmp)
                if r is None:
                    continue
                if r[0] == 101 or "panicked at" in r[2]:
                    return {"mode": "clitable", "case": case, "expected": "a table", "actual": "panic: " + r[2][:300]}, checked, ""
                pr = _rows(r[1])
                if r[0] != 0 or pr is None:
                    return {"mode": "clitable", "case": case, "expected": "a table", "actual": f"exit {r[0]} {r[2][:200]}"}, checked, ""
                names, rows = pr
                if aspect == "panic":
                    continue
                if sorted(names) != sorted(free) or len(set(names)) != len(names):
                    return {"mode": "clitable", "case": case, "expected": f"columns = the free variables {free}", "actual": f"{names}"}, checked, ""
                in_order = [v for v in vars_ if v in free]
                if names != in_order:
                    return {"mode": "clitable", "case": case, "expected": f"columns in variable order {in_order}", "actual": f"{names}"}, checked, ""
                if filt is None:
                    base_table = [l for l in r[1].split("\n") if l.startswith("|")]
                covered = {}
                for cells in (rows if rows_too else []):
                    want_res = cells[-1]
                    for a in _expand(names, cells[:-1]):
                        if a in covered:
                            return {"mode": "clitable", "case": case, "expected": "pairwise disjoint rows", "actual": r[1][:400]}, checked, ""
                        covered[a] = want_res
                        if (want_res == "True") != (a in sat):
                            return {"mode": "clitable", "case": case, "expected": f"result column right on every covered assignment (e.g. {sorted(a)} is {'true' if a in sat else 'false'})", "actual": r[1][:400]}, checked, ""
                expect_cov = set(allasg) if filt in (None, "any") else (sat if filt == "true" else set(allasg) - sat)
                if rows_too and set(covered) != expect_cov:
                    return {"mode": "clitable", "case": case, "expected": f"rows cover exactly {len(expect_cov)} assignments for filter {filt or 'any'}", "actual": f"{len(covered)} covered\n" + r[1][:400]}, checked, ""
            # -v: the satisfying assignments by name
            checked += 1
            case = json.dumps({"formula": f, "ordering": None, "options": ["-v"], "channel": "table"})
            r = _run(binary, ["-v", "--evaluate=" + f], tmp)
            if r is None:
                continue
            if r[0] == 101 or "panicked at" in r[2]:
                return {"mode": "clitable", "case": case, "expected": "-v output", "actual": "panic: " + r[2][:300]}, checked, ""
            got = set()
            bad = None
            for line in r[1].split("\n"):
                line = line.strip()
                if not line.endswith(";"):
                    continue
                items = [x.strip() for x in line[:-1].split(",") if x.strip()]
                true_names = [x for x in items if not x.endswith("*")]
                any_names = [x[:-1] for x in items if x.endswith("*")]
                for n in true_names + any_names:
                    if n not in free:
                        bad = f"`{n}` is not a free variable (line `{line}`)"
                for bits in itertools.product([False, True], repeat=len(any_names)):
                    got.add(frozenset(true_names) | frozenset(n for n, b in zip(any_names, bits) if b))
            if bad:
                return {"mode": "clitable", "case": case, "expected": f"only free variables {free} in the answer", "actual": bad}, checked, ""
            if rows_too and got != sat:
                return {"mode": "clitable", "case": case, "expected": f"-v lists exactly the {len(sat)} satisfying assignments", "actual": r[1][:400]}, checked, ""
            if not rows_too:
                continue
            v_lines = [l for l in r[1].split("\n") if l.strip().endswith(";")]
            if f not in fixed:
                continue
            # same output through every input channel, for every repetition count, for every spelling of a filter
            fp = os.path.join(tmp, "formula.txt")
            with open(fp, "w") as fh:
                fh.write(f)
            # the same text laid out over several lines (line breaks are plain white space in the formula language)
            f_nl = f.replace(" ", "\n") + "\n"
            fp2 = os.path.join(tmp, "formula_nl.txt")
            with open(fp2, "w") as fh:
                fh.write(f_nl)
            variants = [(["-t", fp], None, "|", base_table, "file"), (["-t"], f.encode(), "|", base_table, "stdin"),
                        (["-t", "--evaluate=" + f_nl], None, "|", base_table, "multi-line --evaluate"),
                        (["-t", fp2], None, "|", base_table, "multi-line file"), (["-t"], f_nl.encode(), "|", base_table, "multi-line stdin"),
                        (["-v"], f_nl.encode(), ";", v_lines, "-v multi-line stdin"),
                        (["-t", "-b", "1", "--evaluate=" + f], None, "|", base_table, "-b 1"), (["-v", "-b", "1", fp], None, ";", v_lines, "-v -b 1 file"),
                        (["-t", "-b", "2", "--evaluate=" + f], None, "|", base_table, "-b 2"), (["-t", "-b", "5", fp], None, "|", base_table, "-b 5 file"),
                        (["-v", fp], None, ";", v_lines, "-v file"), (["-v", "-b", "3"], f.encode(), ";", v_lines, "-v -b 3 stdin")]
            for args, stdin, mark, want, label in variants:
                checked += 1
                try:
                    pp = subprocess.run([binary] + args, input=stdin, capture_output=True, timeout=30)
                except subprocess.TimeoutExpired:
                    continue
                out = pp.stdout.decode("utf-8", "replace")
                got_lines = [l for l in out.split("\n") if (l.startswith("|") if mark == "|" else l.strip().endswith(";"))]
                if pp.returncode != 0 or got_lines != want:
                    case = json.dumps({"formula": f, "ordering": None, "options": args[:1] + [label], "channel": "table"})
                    return {"mode": "clitable", "case": case, "expected": "the same table / listing as with --evaluate and one run:\n" + "\n".join(want)[:300],
                            "actual": f"exit {pp.returncode}\n" + "\n".join(got_lines)[:300]}, checked, ""
            # options compose: every output section is printed independently, in the fixed order -r, -t, -v
            def out_of(opts):
                rr = _run(binary, opts + ["--evaluate=" + f], tmp)
                return None if rr is None or rr[0] != 0 else rr[1]
            for combo in (["-t", "-v"], ["-r", "-t"], ["-r", "-t", "-v"], ["-t", "-v", "-f", "true"], ["-v", "-t", "-f", "false"], ["-m", "-t", "-v"], ["-c", "true", "-t", "-v"]):
                checked += 1
                extra = []
                for fl in ("-f", "-c"):
                    if fl in combo:
                        extra += [fl, combo[combo.index(fl) + 1]]
                if "-m" in combo:
                    extra += ["-m"]
                parts = [out_of([o] + extra) for o in ("-r", "-t", "-v") if o in combo]
                whole = out_of(combo)
                if whole is None or any(x is None for x in parts):
                    continue
                if whole != "".join(parts):
                    case = json.dumps({"formula": f, "ordering": None, "options": combo, "channel": "table"})
                    return {"mode": "clitable", "case": case, "expected": "the sections each option prints on its own, in the order -r, -t, -v:\n" + "".join(parts)[:300],
                            "actual": whole[:300]}, checked, ""
            for spell, canon in (("True", "true"), ("T", "true"), ("t", "true"), ("1", "true"), ("False", "false"), ("F", "false"), ("f", "false"),
                                 ("0", "false"), ("Any", "any"), ("A", "any"), ("a", "any"), ("*", "any")):
                checked += 1
                r1 = _run(binary, ["-t", "-f", spell, "--evaluate=" + f], tmp)
                r2 = _run(binary, ["-t", "-f", canon, "--evaluate=" + f], tmp)
                if r1 is None or r2 is None:
                    continue
                if r1[0] != r2[0] or [l for l in r1[1].split("\n") if l.startswith("|")] != [l for l in r2[1].split("\n") if l.startswith("|")]:
                    case = json.dumps({"formula": f, "ordering": None, "options": ["-t", "-f", spell], "channel": "table"})
                    return {"mode": "clitable", "case": case, "expected": f"filter spelling `{spell}` behaves as `{canon}`", "actual": (r1[1] + r1[2])[:300]}, checked, ""
    return None, checked, ""


def table_case(repo, case, aspect=None):
    import json
    c = json.loads(case)
    global TABLE_FORMULAS
    sf = TABLE_FORMULAS
    try:
        TABLE_FORMULAS = [c["formula"]]
        r, n, err = sweep_table(repo, 0, 0, aspect=aspect)
    finally:
        TABLE_FORMULAS = sf
    return r, err
