"""Bounded stand-in for `main()` and the printers of src/bin/rsbdd.rs (C12): run the real binary, built from
/repo's current tree, over formulas x orderings x option sets and require that it never panics (exit code 101 /
'panicked at').  Labelled bounded; never counted as proved."""
import itertools
import os
import random
import subprocess
import tempfile

VERIF = os.path.dirname(os.path.dirname(os.path.abspath(__file__)))
WORK = os.path.join(VERIF, ".work")

FORMULAS = [
    "a", "a & b", "-a | b", "a ^ b ^ c", "true", "false", "[a, b, c] = 1", "[a, b] <= [c]", "[a, b] >= [c, d]",
    "exists a # a & b", "forall a, b # a | b | c", "lfp X # a | X", "gfp X # a & X", "if a then b else c",
    "{r} | a", "a <= b", "[a] = 99999999999999999999", "[a] > 9223372036854775807", "-(a b c", "", "\"only a comment\"",
    "(", "a &", "[a, b", "exists # a", "exists a #", "a \"c\" b", "٣", "a\x00b", "[a,] < 0", "mu X # (exists X # X)",
    "[a, b] < [a]", "[[a] = 1, b] >= 1", "a nand b nor c", "all a # [a, b] = [b]", "if [a,b]=1 then {x} else -c",
]
ORDERINGS = [None, "a", "b a", "x a", "c b a", "a a b", "z a b", ", ; a", "", "\"c\" a"]
OPTSETS = [
    [], ["-t"], ["-v"], ["-m", "-t"], ["-t", "-f", "true"], ["-t", "-f", "false"], ["-t", "-f", "any"], ["-t", "-c", "true"],
    ["-t", "-c", "false"], ["-t", "-b", "2"], ["-r"], ["-p", "@PT@"], ["-d", "@DOT@"], ["-d", "@DOT@", "-f", "true"],
    ["-d", "@DOT@", "-f", "false"], ["-m", "-v", "-t", "-p", "@PT@", "-d", "@DOT@"], ["-t", "-v", "-f", "T", "-c", "F"],
]


def build_binary(repo):
    td = os.path.join(WORK, "repo-target")
    env = dict(os.environ, CARGO_NET_OFFLINE="true")
    p = subprocess.run(["cargo", "build", "--offline", "--quiet", "--bin", "rsbdd", "--manifest-path", os.path.join(repo, "Cargo.toml"),
                        "--target-dir", td], env=env, capture_output=True, text=True, timeout=3600)
    if p.returncode != 0:
        return None, p.stderr[-1500:]
    return os.path.join(td, "debug", "rsbdd"), ""


def run_case(binary, formula, ordering, opts, channel, tmp):
    args = [binary]
    pt, dot = os.path.join(tmp, "pt.dot"), os.path.join(tmp, "bdd.dot")
    args += [o.replace("@PT@", pt).replace("@DOT@", dot) for o in opts]
    stdin = None
    if ordering is not None:
        op = os.path.join(tmp, "ord.txt")
        with open(op, "w") as f:
            f.write(ordering)
        args += ["-o", op]
    if channel == "evaluate":
        if "\x00" in formula:
            return None
        args += ["--evaluate=" + formula]
    elif channel == "file":
        fp = os.path.join(tmp, "in.txt")
        with open(fp, "wb") as f:
            f.write(formula.encode("utf-8", "surrogateescape"))
        args += [fp]
    else:
        stdin = formula.encode("utf-8", "surrogateescape")
    try:
        p = subprocess.run(args, input=stdin, capture_output=True, timeout=20)
    except subprocess.TimeoutExpired:
        return None
    err = p.stderr.decode("utf-8", "replace")
    if p.returncode == 101 or "panicked at" in err:
        line = [l for l in err.split("\n") if "panicked at" in l]
        nxt = err.split("panicked at", 1)[1].split("\n")[1] if "panicked at" in err and "\n" in err.split("panicked at", 1)[1] else ""
        return {"mode": "cli", "case": json_case(formula, ordering, opts, channel), "expected": "exit 0 or an error exit with a message, never a panic",
                "actual": (line[0] if line else "exit 101") + " " + nxt.strip()}
    return None


def json_case(formula, ordering, opts, channel):
    import json
    return json.dumps({"formula": formula, "ordering": ordering, "options": opts, "channel": channel}, ensure_ascii=False)


def sweep(repo, budget, seed, binary=None):
    """returns (found | None, cases checked, error)"""
    if binary is None:
        binary, err = build_binary(repo)
        if binary is None:
            return None, 0, err
    rnd = random.Random(seed)
    checked = 0
    with tempfile.TemporaryDirectory(prefix="clisweep", dir=WORK) as tmp:
        cases = []
        for f in FORMULAS:
            for o in OPTSETS:
                cases.append((f, None, o, "evaluate"))
        for f in FORMULAS[:16]:
            for od in ORDERINGS[1:]:
                cases.append((f, od, ["-t"], "evaluate"))
                cases.append((f, od, ["-v", "-r"], "stdin"))
        for f in FORMULAS:
            cases.append((f, None, ["-t"], "file"))
            cases.append((f, None, ["-t", "-m"], "stdin"))
        # invalid UTF-8 via file / stdin
        for ch in ("file", "stdin"):
            cases.append(("a & \udcff\udcfe b", None, ["-t"], ch))
        extra = max(0, budget // 10)
        for _ in range(extra):
            cases.append((rnd.choice(FORMULAS), rnd.choice(ORDERINGS), rnd.choice(OPTSETS), rnd.choice(["evaluate", "file", "stdin"])))
        from concurrent.futures import ThreadPoolExecutor

        def one(ic):
            i, (f, od, o, ch) = ic
            d = os.path.join(tmp, str(i % 64) + "_" + str(i))
            os.makedirs(d, exist_ok=True)
            return run_case(binary, f, od, o, ch, d)

        with ThreadPoolExecutor(max_workers=12) as ex:
            for r in ex.map(one, list(enumerate(cases))):
                checked += 1
                if r is not None:
                    return r, checked, ""
    return None, checked, ""


def replay_case(repo, case):
    import json
    c = json.loads(case)
    binary, err = build_binary(repo)
    if binary is None:
        return None, err
    with tempfile.TemporaryDirectory(prefix="clisweep", dir=WORK) as tmp:
        return run_case(binary, c["formula"], c["ordering"], c["options"], c["channel"], tmp), ""
