"""Replay search (DESIGN §3.5): never decides anything; looks for a concrete failing input on the
real code for a clause Verus could not discharge."""


def search(pid, fl, b, tier, seed):
    return None


def replay_file(path):
    import json
    d = json.load(open(path))
    print(json.dumps({k: d[k] for k in ("property", "failed_obligation", "failing_input")}, indent=1))
    if not d.get("failing_input"):
        print("no failing input recorded for this obligation (no-failing-input-found)")
        return 0
    return 0
