"""Replay search (DESIGN §3.5).

Never decides a property on its own: it is run only for an obligation Verus could not discharge and
looks for a concrete input on which the REAL code (the crate in /repo, built as it stands) disagrees
with an executable reading of that clause.  A hit is attached to the VIOLATION line and can be
re-run with `./check replay <file>`.
"""
import hashlib
import json
import os
import shutil
import subprocess

VERIF = os.path.dirname(os.path.dirname(os.path.abspath(__file__)))
REPO = os.environ.get("VERIF_REPO", "/repo")
WORK = os.path.join(VERIF, ".work")

# which search modes can exhibit a failure of an obligation on a given function (primary first)
MODES = [
    ("parser::SymbolicBDD::", ["parse", "formula"]),
    ("parser::expect", ["parse"]),
    ("parser::check", ["parse"]),
    ("parser::ParsedFormula::to_free_index", ["index", "formula"]),
    ("parser::ParsedFormula::new_with_env", ["index", "formula", "parse"]),
    ("parser::ParsedFormula::var_is_free", ["formula", "index"]),
    ("parser::ParsedFormula::", ["formula"]),
    ("bdd::BDDEnv::exists", ["quant", "formula"]),
    ("bdd::BDDEnv::all", ["quant", "formula"]),
    ("bdd::BDDEnv::cmp_count", ["count", "formula"]),
    ("bdd::BDDEnv::aln", ["count", "formula"]),
    ("bdd::BDDEnv::amn", ["count", "formula"]),
    ("bdd::BDDEnv::exn", ["count", "formula"]),
    ("bdd::BDDEnv::count_", ["count", "formula"]),
    ("bdd::BDDEnv::model", ["model"]),
    ("bdd::BDDEnv::infer", ["model"]),
    ("bdd::BDDEnv::retain", ["retain"]),
    ("bdd::BDD::is_", ["retain", "ops"]),
    ("truth_table::", ["retain"]),
    ("bdd::BDDEnv::fp", ["fp", "formula"]),
    ("bdd::BDDEnv::", ["ops", "quant", "count", "formula"]),
    ("symbols::", ["ops", "formula", "quant"]),
    ("cli::main", ["clitable", "climodel", "cliorder", "cli"]),
    ("cli::", ["clitable", "cli"]),
]


def modes_for(fid):
    for pre, ms in MODES:
        if fid.startswith(pre):
            return ms
    return ["formula", "ops"]


def build_replay():
    """build the replay binary against REPO's current tree (offline); returns path or None"""
    d = os.path.join(WORK, "replay-" + hashlib.sha1(REPO.encode()).hexdigest()[:8])
    os.makedirs(os.path.join(d, "src"), exist_ok=True)
    shutil.copy(os.path.join(VERIF, "replay", "src", "main.rs"), os.path.join(d, "src", "main.rs"))
    with open(os.path.join(d, "Cargo.toml"), "w") as f:
        f.write('[package]\nname = "rsbdd_replay"\nversion = "0.0.0"\nedition = "2021"\n\n[dependencies]\n'
                f'rsbdd = {{ path = "{REPO}" }}\n\n[profile.dev]\nopt-level = 1\ndebug = false\n\n[workspace]\n')
    lock = os.path.join(REPO, "Cargo.lock")
    mylock = os.path.join(d, "Cargo.lock")
    if os.path.exists(lock):
        # always start from the repository's own lock file: a lock file cargo generated itself after a failed build
        # (offline, from whatever happens to be cached) must never survive into the next run
        shutil.copy(lock, mylock)
    elif os.path.exists(mylock):
        os.remove(mylock)
    env = dict(os.environ, CARGO_NET_OFFLINE="true", CARGO_TARGET_DIR=os.path.join(WORK, "replay-target"))
    p = subprocess.run(["cargo", "build", "--offline", "--quiet"], cwd=d, env=env, capture_output=True, text=True, timeout=1800)
    if p.returncode != 0:
        # a stale lock file can block resolution: retry without it
        try:
            os.remove(os.path.join(d, "Cargo.lock"))
        except OSError:
            pass
        first_err = p.stderr
        p = subprocess.run(["cargo", "build", "--offline", "--quiet"], cwd=d, env=env, capture_output=True, text=True, timeout=1800)
        if p.returncode != 0:
            try:
                os.remove(os.path.join(d, "Cargo.lock"))
            except OSError:
                pass
            return None, (first_err or p.stderr)[-1500:]
    return os.path.join(WORK, "replay-target", "debug", "rsbdd_replay"), ""


def search(pid, fl, b, tier, seed, binary=None):
    """returns dict(mode, case, expected, actual, cmd) or None"""
    if binary is None:
        binary, err = build_replay()
        if binary is None:
            raise RuntimeError("replay crate does not build against the current tree: " + err)
    budget = "20000" if tier == "thorough" else "3000"
    aspect = ASPECTS.get(pid)
    env = dict(os.environ)
    if aspect:
        env["REPLAY_ASPECT"] = aspect
    else:
        env.pop("REPLAY_ASPECT", None)
    for mode in modes_for(fl.fid):
        if mode in ("cli", "clitable", "climodel", "cliorder"):
            # the printers and main() live in the binary crate: the failing input is a run of the real binary
            from . import clisweep
            if mode == "clitable":
                d, _, cerr = clisweep.sweep_table(REPO, int(budget), seed, aspect=aspect)
            elif aspect == "panic" and mode != "cli":
                continue
            else:
                d, _, cerr = {"cli": clisweep.sweep, "climodel": clisweep.sweep_model, "cliorder": clisweep.sweep_order}[mode](REPO, int(budget), seed)
            if d is not None and d.get("case") is not None:
                d["cmd"] = "the rsbdd binary built from /repo, run on this case (./check replay <file>)"
                if aspect:
                    d["aspect"] = aspect
                return d
            continue
        try:
            p = subprocess.run([binary, "search", mode, budget, str(seed)], capture_output=True, text=True, timeout=900 if tier == "thorough" else 240, env=env)
        except subprocess.TimeoutExpired:
            continue
        line = (p.stdout.strip().split("\n") or [""])[-1]
        if p.returncode == 1 and line.startswith("{"):
            try:
                d = json.loads(line)
            except Exception:
                continue
            if d.get("case") is not None:
                d["cmd"] = f"replay case {d['mode']} <case>   (binary built from /verif/replay against /repo)"
                if aspect:
                    d["aspect"] = aspect
                return d
    return None


def replay_file(path):
    d = json.load(open(path))
    print(f"property={d.get('property')} obligation={d.get('failed_obligation')}")
    fi = d.get("failing_input")
    if not fi:
        print("no failing input recorded for this obligation (no-failing-input-found); verifier output:")
        print(d.get("verifier_output", ""))
        return 0
    if fi.get("mode") in ("cli", "cliorder", "climodel", "clitable"):
        from . import clisweep
        if fi["mode"] == "clitable":
            r, err = clisweep.table_case(REPO, fi["case"], aspect=fi.get("aspect"))
        else:
            r, err = {"cli": clisweep.replay_case, "cliorder": clisweep.order_case, "climodel": clisweep.model_case}[fi["mode"]](REPO, fi["case"])
        print(f"mode=cli case={fi['case']}")
        if r is not None:
            print("REPRODUCED on the real binary:")
            print("  expected:", r["expected"])
            print("  actual:  ", r["actual"])
            return 1
        print("not reproduced on the current tree" + (": " + err if err else ""))
        return 0
    binary, err = build_replay()
    if binary is None:
        print("replay crate does not build against the current tree:", err)
        return 2
    env = dict(os.environ)
    if fi.get("aspect"):
        env["REPLAY_ASPECT"] = fi["aspect"]
    p = subprocess.run([binary, "case", fi["mode"], fi["case"]], capture_output=True, text=True, timeout=600, env=env)
    line = (p.stdout.strip().split("\n") or [""])[-1]
    print(f"mode={fi['mode']} case={fi['case']}")
    if p.returncode == 1:
        r = json.loads(line)
        print("REPRODUCED on the real code:")
        print("  expected:", r["expected"])
        print("  actual:  ", r["actual"])
        return 1
    print("not reproduced on the current tree (the real code agrees with the reference on this case)")
    return 0


BOUNDS = {
    "lex": "tokenizer vs an independent reading of the lexical rules: all concatenations of <= 3 lexemes from a 44-lexeme alphabet (symbols, words, digits, quotes, braces, whitespace, NUL, stray and non-ASCII characters, long runs of multi-byte digits), all strings of <= 3 (thorough: 4) characters over a 55-character alphabet, plus seeded random strings of 4-11 lexemes",
    "index": "column index of every free variable and meaning preservation under orderings: 11 formulas x 20 orderings (permutations, subsets, supersets, gaps, duplicates, API vectors with descending / gapped ids, orderings that reverse a quantifier list) plus seeded random formula/ordering pairs (positional and shuffled explicit ids)",
    "formula": "tokenize -> parse -> free variables -> eval against an independent truth-table evaluator: corner-case list plus seeded random formulas of depth <= 3 over 4 names",
    "parse": "real parser vs an independent recursive-descent parser on real tokens: all token sequences of length <= 3 (4 in thorough) over 22 lexemes plus random and mutated sentences",
    "ops": "all pairs of the 256 functions over 3 variables (two index patterns, operands from the same and from a foreign environment) for the binary connectives; not; random triples for ite",
    "retain": "all 256 functions x 3 filters, plus call sequences sharing one environment",
    "history": "seeded random sequences of 25 operations (connectives, quantifiers, counting, model, retain, clean) on a growing pool in ONE environment: each result must be structurally equal to what a fresh environment computes, every earlier result must keep its truth table, both leaves must stay available; plus the clean-with-only-a-constant-alive scenario, re-definitions between evaluations, a 40 000-node environment, universal and existential quantification over the same variable back to back, and formulas whose names are numbered differently sharing one environment (table must not grow, results must be the same allocation)",
}


# what a bounded stand-in run FOR a given property may report: a stand-in shared by several properties observes more than
# any one of them states (e.g. `formula` compares whole truth tables), and a check must not demand more than its property
ASPECTS = {"C12": "panic", "C09": "vars"}


def run_mode(binary, mode, budget, seed, timeout=600, aspect=None):
    """returns (found dict | None, cases checked)"""
    env = dict(os.environ)
    if aspect:
        env["REPLAY_ASPECT"] = aspect
    else:
        env.pop("REPLAY_ASPECT", None)
    try:
        p = subprocess.run([binary, "search", mode, str(budget), str(seed)], capture_output=True, text=True, timeout=timeout, env=env)
    except subprocess.TimeoutExpired:
        return None, 0
    line = (p.stdout.strip().split("\n") or [""])[-1]
    try:
        d = json.loads(line)
    except Exception:
        return None, 0
    if p.returncode == 1 and d.get("case") is not None:
        if aspect:
            d["aspect"] = aspect
        return d, 0
    return None, int(d.get("checked", 0))
