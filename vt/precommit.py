"""Sanity checks before committing /verif: /repo unchanged, committed-to-be evidence describes runs on the unchanged tree
(discharged == obligations, no violations), MANIFEST.json regenerates from unit/claims.toml, every claimed property has an
evidence file.  Usage: python3 -m vt.precommit"""
import glob
import json
import os
import subprocess
import sys

VERIF = os.path.dirname(os.path.dirname(os.path.abspath(__file__)))


def main():
    bad = []
    if subprocess.run(["git", "-C", "/repo", "diff", "--quiet"]).returncode != 0:
        bad.append("/repo has uncommitted changes (a seeded / benign patch is still applied?)")
    man = json.load(open(os.path.join(VERIF, "MANIFEST.json")))
    for c in man["checks"]:
        f = c["evidence_file"]
        if not os.path.exists(f):
            bad.append(f"{f} missing")
            continue
        d = json.load(open(f))
        cov = d.get("coverage", {})
        if cov.get("obligations") != cov.get("discharged") or d.get("violations"):
            bad.append(f"{f}: obligations {cov.get('obligations')} discharged {cov.get('discharged')} violations {d.get('violations')} "
                       "(evidence of a run on a patched tree: re-run ./check on the unchanged tree)")
    before = open(os.path.join(VERIF, "MANIFEST.json")).read()
    subprocess.run([sys.executable, "-m", "vt.manifest"], cwd=VERIF, capture_output=True)
    if open(os.path.join(VERIF, "MANIFEST.json")).read() != before:
        bad.append("MANIFEST.json was out of date with unit/claims.toml (regenerated now)")
    if os.path.isdir(os.path.join(VERIF, "replays")) and glob.glob(os.path.join(VERIF, "replays", "*.json")):
        bad.append("replays/ holds replay files of an earlier violating run (ignored by git; remove them)")
    for b in bad:
        print("PRECOMMIT:", b)
    print("precommit: ok" if not bad else f"precommit: {len(bad)} problem(s)")
    return 1 if bad else 0


if __name__ == "__main__":
    sys.exit(main())
