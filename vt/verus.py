"""Run Verus on a generated unit file and map diagnostics back to contract clauses."""
import json
import os
import re
import subprocess
import time
from dataclasses import dataclass, field

from .build import fn_for_line, tag_for_line

VERUS = os.environ.get("VERUS", "verus")


@dataclass
class Failure:
    kind: str              # postcondition | precondition | assertion | overflow | termination | invariant | other
    message: str
    fid: str               # function the obligation was generated in ("" = spec library / prelude)
    tag: str               # clause tag, or fid + "::implicit#<kind>"
    line: int
    rendered: str
    callee_clause: str = ""


@dataclass
class RunResult:
    ok: bool = False
    verified: int = 0
    errors: int = 0
    failures: list = field(default_factory=list)
    hard_errors: list = field(default_factory=list)   # compile / unsupported / internal errors
    hard_sites: list = field(default_factory=list)    # same, with the function of the generated file they point into
    resource: list = field(default_factory=list)      # rlimit / timeout diagnostics
    fn_stats: dict = field(default_factory=dict)      # verus fn name -> {time_ms, rlimit, success, mode}
    smt_ms: int = 0
    total_ms: int = 0
    wall_s: float = 0.0
    version: str = ""
    cmd: str = ""
    raw_stderr: str = ""


_KINDS = [
    ("postcondition not satisfied", "postcondition"),
    ("unable to prove post-condition of closure", "postcondition"),
    ("precondition not satisfied", "precondition"),
    ("assertion failed", "assertion"),
    ("possible arithmetic underflow/overflow", "overflow"),
    ("possible division by zero", "overflow"),
    ("possible bit shift underflow/overflow", "overflow"),
    ("invariant not satisfied", "invariant"),
    ("decreases not satisfied", "termination"),
    ("could not prove termination", "termination"),
    ("unreachable", "panic"),
    ("recommendation not met", "recommend"),
]
_RESOURCE = ("rlimit", "resource limit", "timed out", "timeout", "canceled")


def run_verus(path, built, rlimit=None, extra=None, timeout=900):
    cmd = [VERUS, os.path.basename(path), "--output-json", "--time", "--error-format=json",
           "--multiple-errors", "200"]
    if rlimit:
        cmd += ["--rlimit", str(rlimit)]
    if extra:
        cmd += list(extra)
    t0 = time.time()
    res = RunResult(cmd=" ".join(cmd))
    try:
        p = subprocess.run(cmd, cwd=os.path.dirname(path), capture_output=True, text=True, timeout=timeout)
    except subprocess.TimeoutExpired:
        res.resource.append(f"verus wall-clock timeout after {timeout}s")
        res.wall_s = time.time() - t0
        return res
    res.wall_s = time.time() - t0
    res.raw_stderr = p.stderr
    # stdout: JSON summary
    try:
        out = json.loads(p.stdout)
    except Exception:
        out = None
    if out:
        vr = out.get("verification-results", {})
        res.verified = vr.get("verified", 0)
        res.errors = vr.get("errors", 0)
        res.ok = bool(vr.get("success"))
        tm = out.get("times-ms", {})
        res.total_ms = tm.get("total", 0)
        smt = tm.get("smt", {})
        res.smt_ms = smt.get("smt-run", 0)
        for mod in smt.get("smt-run-module-times", []):
            for f in mod.get("function-breakdown", []):
                res.fn_stats[f["function"]] = {"time_ms": f.get("time", 0), "rlimit": f.get("rlimit", 0),
                                               "success": f.get("success"), "mode": f.get("mode:", "")}
        res.version = out.get("verus", {}).get("version", "")
    # stderr: rustc-style JSON diagnostics
    for line in p.stderr.split("\n"):
        line = line.strip()
        if not line.startswith("{"):
            continue
        try:
            d = json.loads(line)
        except Exception:
            continue
        if d.get("level") != "error":
            continue
        msg = d.get("message", "")
        if msg.startswith("aborting due to"):
            continue
        low = msg.lower()
        if any(r in low for r in _RESOURCE):
            res.resource.append(msg)
            continue
        kind = None
        for pat, k in _KINDS:
            if pat in low:
                kind = k
                break
        if kind is None:
            spans = d.get("spans", [])
            prim = [x for x in spans if x.get("is_primary")] or spans
            hl = prim[0]["line_start"] if prim and not prim[0].get("file_name", "").startswith("/") else 0
            res.hard_errors.append(d.get("rendered") or msg)
            res.hard_sites.append({"message": msg, "line": hl, "fid": fn_for_line(built, hl) if hl else None})
            continue
        res.failures.append(_classify(d, kind, built))
    if out is None and not res.hard_errors and not res.failures:
        res.hard_errors.append("verus produced no JSON summary:\n" + p.stderr[-2000:] + p.stdout[-2000:])
    return res


def _classify(d, kind, built):
    spans = d.get("spans", [])
    prim = [s for s in spans if s.get("is_primary")]
    sec = [s for s in spans if not s.get("is_primary")]
    rendered = d.get("rendered") or d.get("message")
    msg = d.get("message")
    line = prim[0]["line_start"] if prim else (spans[0]["line_start"] if spans else 0)

    def span_with_label(sub):
        for s in spans:
            if s.get("label") and sub in s["label"]:
                return s
        return None

    fid = ""
    tag = ""
    callee_clause = ""
    if kind == "postcondition":
        s = span_with_label("failed this postcondition")
        cl_line = s["line_start"] if s else line
        tag = tag_for_line(built, cl_line) or ""
        body = span_with_label("at the end of the function body") or span_with_label("at this exit")
        fid = fn_for_line(built, body["line_start"] if body else cl_line) or fn_for_line(built, cl_line) or ""
        line = cl_line
    elif kind == "precondition":
        s = span_with_label("failed precondition")
        call = prim[0] if prim else None
        # primary span is the call site, secondary is the callee's requires clause (or the reverse)
        cands = [x for x in spans if x is not s]
        site = cands[0] if cands else s
        fid = fn_for_line(built, site["line_start"]) or ""
        if s is not None and s.get("file_name", "").endswith(".rs") and not s.get("file_name", "").startswith("/"):
            callee_clause = tag_for_line(built, s["line_start"]) or ""
        line = site["line_start"]
        inner = tag_for_line(built, line)
        if inner and ("::ghost" in inner or inner.endswith("::prologue")):
            tag = inner           # a lemma precondition failing inside a ghost block
        else:
            tag = f"{fid}::implicit#precondition" if fid else ""
    elif kind in ("invariant",):
        s = span_with_label("failed this invariant") or (prim[0] if prim else None)
        cl_line = s["line_start"] if s else line
        tag = tag_for_line(built, cl_line) or ""
        fid = fn_for_line(built, cl_line) or ""
        line = cl_line
    elif kind == "termination":
        fid = fn_for_line(built, line) or ""
        # the decreases clause of that function
        tag = ""
        for first, last, t in built.clause_lines:
            if t.startswith(fid + "::fn::decreases#"):
                tag = t
        if not tag:
            tag = f"{fid}::implicit#termination"
    elif kind == "assertion":
        fid = fn_for_line(built, line) or ""
        tag = tag_for_line(built, line) or (f"{fid}::implicit#assertion" if fid else "")
    else:
        fid = fn_for_line(built, line) or ""
        tag = f"{fid}::implicit#{kind}" if fid else ""
    return Failure(kind, msg, fid, tag, line, rendered, callee_clause)
