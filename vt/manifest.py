"""Regenerate MANIFEST.json from unit/claims.toml (keeps it schema-valid at all times)."""
import json
import os
import tomllib

VERIF = os.path.dirname(os.path.dirname(os.path.abspath(__file__)))


def main():
    with open(os.path.join(VERIF, "unit", "claims.toml"), "rb") as f:
        cfg = tomllib.load(f)
    props = [json.loads(l) for l in open(os.path.join(VERIF, "properties.jsonl"))]
    ids = [p["id"] for p in props]
    checks = []
    for pid in ids:
        c = cfg.get("claim", {}).get(pid)
        if not c:
            continue
        checks.append({
            "property_id": pid,
            "quick_cmd": f"./check {pid} --tier quick",
            "thorough_cmd": f"./check {pid} --tier thorough",
            "evidence_file": f"/verif/evidence/{pid}.json",
            "replay_cmd_template": "./check replay {path}",
            "engine": "verus-contracts",
            "level_claimed": {"category": "proof", "text": c["text"], "design_ref": c.get("design_ref", "DESIGN.md §5")},
            "level_note": c["note"],
            "technique": c.get("technique", "contract-based deductive verification (Verus/Z3) of functions extracted mechanically from /repo"),
        })
    na = []
    for pid in ids:
        if pid in cfg.get("claim", {}):
            continue
        r = cfg.get("not_applicable", {}).get(pid)
        if not r:
            raise SystemExit(f"{pid}: neither claimed nor not_applicable")
        na.append({"property_id": pid, "reason": r})
    m = {
        "version": 1,
        "setup_cmd": cfg["setup_cmd"],
        "hooks": cfg["hooks"],
        "engines": [{"name": "verus-contracts", "path": "/verif/vt", "serves_properties": [c["property_id"] for c in checks],
                     "kind_free_text": "python3 extractor + contract splicer; Verus 0.2026.09.13 (Z3) discharges the obligations; failing inputs come from a replay crate / the real binary built against /repo"}],
        "checks": checks,
        "not_applicable": na,
        "notes": cfg.get("notes", ""),
    }
    with open(os.path.join(VERIF, "MANIFEST.json"), "w") as f:
        json.dump(m, f, indent=1)
    print(f"MANIFEST.json: {len(checks)} claimed, {len(na)} not applicable")


if __name__ == "__main__":
    main()
