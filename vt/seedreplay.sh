#!/bin/bash
# usage: seedreplay.sh <seed> <mode...>  : apply seed to /repo, build replay, run the modes, undo
S="$1"; shift
git -C /repo apply /verif/seeded/$S/patch.diff || exit 3
python3 -c "
import sys
sys.path.insert(0,'/verif')
from vt.replay import build_replay
b,e=build_replay()
print('build:', 'ok' if b else e[-500:])"
for m in "$@"; do echo -n "SEED $S mode=$m: "; timeout 300 /verif/.work/replay-target/debug/rsbdd_replay search $m 3000 1 2>/dev/null | cut -c1-330; done
git -C /repo checkout -- .
