#!/bin/bash
# usage: benignrun.sh <dir with patch.diff>  : apply a behaviour-preserving change, run every claimed check, undo
D="$1"; N=$(basename $D)
cd /verif
git -C /repo diff --quiet || { echo "/repo not clean"; exit 3; }
git -C /repo apply $D/patch.diff || { echo "BENIGN $N: patch does not apply"; exit 3; }
res=""
for P in C01 C02 C03 C04 C05 C06 C07 C08 C09 C10 C11 C12 C13 C20; do
  out=$(VT_CACHE=1 VT_SKIP_VACUITY=1 ./check $P 2>&1); rc=$?
  res="$res $P=$rc"
  if [ $rc -ne 0 ]; then echo "   $P -> $(echo "$out" | grep -E 'VIOLATION|UNDECIDED' | head -2 | cut -c1-300)"; fi
done
git -C /repo checkout -- .
echo "BENIGN $N:$res"
git -C /verif checkout -- evidence 2>/dev/null   # evidence of a patched tree must not be left behind
