"""Apply every seeded change in /verif/seeded to /repo (one at a time, undone straight afterwards), run the check of
the property it targets and record what the machinery reported.  Writes seeded/RESULTS.json and seeded/RESULTS.md."""
import glob
import json
import os
import re
import shutil
import subprocess
import sys

VERIF = os.path.dirname(os.path.dirname(os.path.abspath(__file__)))


def sh(*a, **k):
    return subprocess.run(*a, capture_output=True, text=True, **k)


def main():
    only = sys.argv[1:]
    out = []
    if sh(["git", "-C", "/repo", "diff", "--quiet"]).returncode != 0:
        print("/repo is not clean")
        return 2
    for d in sorted(glob.glob(os.path.join(VERIF, "seeded", "*-*"))):
        name = os.path.basename(d)
        if only and name not in only:
            continue
        pid = name.split("-")[0]
        shutil.rmtree(os.path.join(VERIF, "replays"), ignore_errors=True)
        if sh(["git", "-C", "/repo", "apply", os.path.join(d, "patch.diff")]).returncode != 0:
            out.append({"seed": name, "property": pid, "verdict": "patch does not apply"})
            continue
        try:
            env = dict(os.environ, VT_SKIP_VACUITY="1")
            p = sh([os.path.join(VERIF, "check"), pid], env=env, cwd=VERIF, timeout=3600)
        finally:
            sh(["git", "-C", "/repo", "checkout", "--", "."])
        lines = [l for l in p.stdout.split("\n") if re.match(r"^(VIOLATION|UNDECIDED|OK|KNOWN-FINDING)", l)]
        obs = []
        for rp in sorted(glob.glob(os.path.join(VERIF, "replays", "*.json"))):
            r = json.load(open(rp))
            fi = r.get("failing_input")
            obs.append({"obligation": r.get("failed_obligation"), "kind": r.get("obligation_kind"),
                        "failing_input": (f"{fi.get('mode')}: {fi.get('case')}" if fi else None)})
        has_line = any(l.startswith("VIOLATION") for l in lines)
        verdict = ("VIOLATION" if p.returncode == 1 and has_line else "EXIT 1 WITHOUT A VIOLATION LINE (checker defect)" if p.returncode == 1
                   else "UNDECIDED" if p.returncode == 2 else "OK (missed)")
        by = []
        if any(o["kind"] not in ("unverifiable-body", "unverifiable-unit", "bounded-standin") for o in obs):
            by.append("failed proof obligation")
        if any(o["kind"] == "bounded-standin" for o in obs):
            by.append("bounded stand-in")
        if any(o["kind"] in ("unverifiable-body", "unverifiable-unit") for o in obs):
            by.append("replay search (unit / function not verifiable)")
        out.append({"seed": name, "property": pid, "exit": p.returncode, "verdict": verdict, "decided_by": by, "obligations": obs,
                    "lines": lines[:4]})
        print(name, verdict, by, [o["obligation"] for o in obs][:3], flush=True)
    shutil.rmtree(os.path.join(VERIF, "replays"), ignore_errors=True)
    # the evidence files now describe runs on seeded trees: put back the committed ones (runs on the unchanged tree)
    sh(["git", "-C", VERIF, "checkout", "--", "evidence"])
    if only:
        # merge into the existing table
        try:
            prev = json.load(open(os.path.join(VERIF, "seeded", "RESULTS.json")))
        except Exception:
            prev = []
        done = {r["seed"] for r in out}
        out = sorted([r for r in prev if r["seed"] not in done] + out, key=lambda r: r["seed"])
    if True:
        json.dump(out, open(os.path.join(VERIF, "seeded", "RESULTS.json"), "w"), indent=1, ensure_ascii=False)
        with open(os.path.join(VERIF, "seeded", "RESULTS.md"), "w") as f:
            f.write("| seed | check | verdict | decided by | failed obligation(s) | replayed failing input |\n|---|---|---|---|---|---|\n")
            for r in out:
                obs = r.get("obligations", [])
                f.write(f"| {r['seed']} | {r['property']} | {r['verdict']} | {'; '.join(r.get('decided_by', []))} | "
                        f"{'<br>'.join(sorted(set(o['obligation'] for o in obs if o['obligation']))[:3])} | "
                        f"{next((('`' + o['failing_input'][:90].replace('|', '/') + '`') for o in obs if o['failing_input']), 'none found')} |\n")
    return 0


if __name__ == "__main__":
    sys.exit(main())
