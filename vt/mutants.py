"""Mutation self-test of the contracts (thorough tier, informational).

One-token semantic mutants are generated mechanically from the copied text of every function under contract
(never from /repo itself: the mutation is applied inside vt.build via its `mutate` hook), each is verified on its
own, and a mutant that still verifies is reported as a survivor.  Survivors are either equivalent mutants or a
contract that is too weak; the list is written to the evidence, it does not change the verdict.
"""
import os
import re
import shutil
import subprocess
import sys
import time
from concurrent.futures import ThreadPoolExecutor

from . import rustlex as L
from .build import build
from .verus import run_verus

VERIF = os.path.dirname(os.path.dirname(os.path.abspath(__file__)))
REPO = os.environ.get("VERIF_REPO", "/repo")
UNIT = os.path.join(VERIF, "unit")
WORK = os.path.join(VERIF, ".work")

OPS = [
    (r" < ", " <= "), (r" <= ", " < "), (r" > ", " >= "), (r" >= ", " > "), (r" == ", " != "), (r" != ", " == "),
    (r" \+ 1\b", " - 1"), (r" - 1\b", " + 1"), (r"\btrue\b", "false"), (r"\bfalse\b", "true"),
    (r" && ", " || "), (r" \|\| ", " && "),
    (r"\.and\(", ".or("), (r"\.or\(", ".and("), (r"\.amn\(", ".aln("), (r"\.aln\(", ".amn("), (r"\.exn\(", ".aln("),
    (r"\.exists\(", ".all("), (r"\.all\(", ".exists("), (r"\.implies\(", ".and("), (r"\.xor\(", ".eq("), (r"\.eq\(l, r\)", ".xor(l, r)"),
    (r"\.nor\(", ".nand("), (r"\.nand\(", ".nor("),
    (r"\.count_leq\(", ".count_lt("), (r"\.count_lt\(", ".count_leq("), (r"\.count_geq\(", ".count_gt("), (r"\.count_gt\(", ".count_geq("),
    (r"\.count_eq\(", ".count_leq("),
    (r"\((\w+), (\w+)\)", r"(\2, \1)"),
    (r"Rc::clone\(at\)", "Rc::clone(af)"), (r"Rc::clone\(bt\)", "Rc::clone(bf)"), (r"Rc::clone\(t\)", "Rc::clone(f)"),
    (r"is_true\(\)", "is_false()"), (r"\.is_err\(\)", ".is_ok()"), (r"\.is_ok\(\)", ".is_err()"),
    (r"Self::aln", "Self::amn"), (r"Self::amn", "Self::aln"),
    (r"SymbolicBDDToken::CloseSquare", "SymbolicBDDToken::CloseParen"), (r"SymbolicBDDToken::Comma", "SymbolicBDDToken::Hash"),
    (r"CountableOperator::AtMost\b", "CountableOperator::AtLeast"), (r"CountableOperator::LessThan\b", "CountableOperator::AtMost"),
    (r"QuantifierType::Exists", "QuantifierType::Forall"),
    (r"BinaryOperator::ImpliesInv\)", "BinaryOperator::Implies)"),
    (r"n \+ 1", "n"), (r"n - 1", "n"),
    (r"TruthTableEntry::False\b", "TruthTableEntry::True"), (r"TruthTableEntry::True\b", "TruthTableEntry::False"),
    (r"TruthTableEntry::Any\b", "TruthTableEntry::True"), (r"BDD::True\b", "BDD::False"), (r"BDD::False\b", "BDD::True"),
]


def _code_matches(pat, body):
    """matches of pat in body that do not start inside a comment or string literal"""
    spans = []
    pos = 0
    for t in L.lex(body):
        if t.kind in ("lcomment", "bcomment", "str", "char"):
            spans.append((pos, pos + len(t.text)))
        pos += len(t.text)
    return [m for m in re.finditer(pat, body) if not any(a <= m.start() < e for a, e in spans)]


def sites(b):
    """(fid, op index, occurrence index, description) for every mutation site in the copied function texts"""
    out = []
    lines = b.text.split("\n")
    from .extract import strip_annotations
    for first, last, fid in b.fn_lines:
        c = b.contracts.get(fid)
        if c is not None and c.external_body:
            continue
        if fid in b.degraded:
            continue
        seg = strip_annotations("\n".join(lines[first - 1:last]))
        # body only
        bo = seg.find("{")
        body = seg[bo:]
        for oi, (pat, rep) in enumerate(OPS):
            for k, m in enumerate(_code_matches(pat, body)):
                out.append((fid, oi, k, f"{fid}: `{m.group(0).strip()}` -> `{re.sub(pat, rep, m.group(0)).strip()}` (occurrence {k})"))
    return out


def make_mutator(target_fid, oi, k):
    pat, rep = OPS[oi]

    def mutate(fid, text):
        if fid != target_fid:
            return None
        bo = text.find("{")
        head, body = text[:bo], text[bo:]
        ms = _code_matches(pat, body)
        if k >= len(ms):
            return None
        m = ms[k]
        return head + body[:m.start()] + re.sub(pat, rep, m.group(0)) + body[m.end():]
    return mutate


def run_one(args):
    idx, (fid, oi, k, desc) = args
    wd = os.path.join(WORK, f"mut-{os.getpid()}-{idx}")
    os.makedirs(wd, exist_ok=True)
    try:
        try:
            b = build(REPO, UNIT, mutate=make_mutator(fid, oi, k))
        except Exception as e:
            return desc, "skipped (does not extract: %s)" % str(e)[:80]
        path = os.path.join(wd, "m.rs")
        with open(path, "w") as f:
            f.write(b.text)
        vname = "::".join(fid.split("::")[1:])
        res = run_verus(path, b, extra=["--verify-function", vname, "--verify-root"] if "impl" not in vname else None, timeout=300)
        if res.hard_errors:
            return desc, "killed (rejected by rustc/verus)"
        if res.failures or res.resource:
            return desc, "killed"
        if res.verified == 0:
            return desc, "skipped (nothing verified)"
        return desc, "SURVIVED"
    finally:
        shutil.rmtree(wd, ignore_errors=True)


def selftest(limit=None, workers=8, seed=1, fids=None):
    b = build(REPO, UNIT)
    ss = sites(b)
    if fids is not None:
        ss = [x for x in ss if x[0] in fids]
    if limit and len(ss) > limit:
        import random
        random.Random(seed).shuffle(ss)
        ss = sorted(ss[:limit])
    t0 = time.time()
    with ThreadPoolExecutor(max_workers=workers) as ex:
        results = list(ex.map(run_one, list(enumerate(ss))))
    killed = [d for d, r in results if r.startswith("killed")]
    surv = [d for d, r in results if r == "SURVIVED"]
    skipped = [f"{d}: {r}" for d, r in results if r.startswith("skipped")]
    return {"generated": len(ss), "killed": len(killed), "survivors": surv, "skipped": skipped, "wall_s": round(time.time() - t0, 1)}


if __name__ == "__main__":
    lim = int(sys.argv[1]) if len(sys.argv) > 1 else None
    r = selftest(lim)
    print({k: v for k, v in r.items() if k != "survivors"})
    for s in r["survivors"]:
        print("SURVIVED", s)
