"""Minimal Rust lexer (stdlib only) used to copy items out of /repo token for token.

Token kinds: ws, lcomment, bcomment, str, char, lifetime, ident, num, punct.
Only the multi-character punctuators the extractor reasons about are combined
(`->`, `=>`, `::`, `&&`, `||`, `..`); everything else is one character per token so
that `Rc<BDD<S>>` never produces a `>>` token.
"""
import re
from dataclasses import dataclass


@dataclass
class Tok:
    kind: str
    text: str
    pos: int      # byte offset in the source the token came from (-1 for synthesized)
    line: int = 0

    def __repr__(self):
        return f"{self.kind}:{self.text!r}"


class LexError(Exception):
    pass


_IDENT = re.compile(r"[A-Za-z_][A-Za-z0-9_]*")
_NUM = re.compile(r"[0-9][0-9A-Za-z_]*(\.[0-9][0-9A-Za-z_]*)?")
_WS = re.compile(r"\s+")
_COMBINED = ("->", "=>", "::", "&&", "||", "..")


def lex(src: str):
    toks = []
    i = 0
    n = len(src)
    line = 1
    while i < n:
        c = src[i]
        start = i
        m = _WS.match(src, i)
        if m:
            i = m.end()
            toks.append(Tok("ws", src[start:i], start, line))
            line += src.count("\n", start, i)
            continue
        if src.startswith("//", i):
            j = src.find("\n", i)
            if j < 0:
                j = n
            toks.append(Tok("lcomment", src[i:j], start, line))
            i = j
            continue
        if src.startswith("/*", i):
            depth = 1
            j = i + 2
            while j < n and depth:
                if src.startswith("/*", j):
                    depth += 1
                    j += 2
                elif src.startswith("*/", j):
                    depth -= 1
                    j += 2
                else:
                    j += 1
            if depth:
                raise LexError(f"unterminated block comment at {i}")
            toks.append(Tok("bcomment", src[i:j], start, line))
            line += src.count("\n", i, j)
            i = j
            continue
        # raw strings r"..." r#"..."#  (optionally b prefix)
        m = re.compile(r'b?r(#*)"').match(src, i)
        if m:
            hashes = m.group(1)
            end = src.find('"' + hashes, m.end())
            if end < 0:
                raise LexError(f"unterminated raw string at {i}")
            j = end + 1 + len(hashes)
            toks.append(Tok("str", src[i:j], start, line))
            line += src.count("\n", i, j)
            i = j
            continue
        if c == '"' or (c == "b" and i + 1 < n and src[i + 1] == '"'):
            j = i + (2 if c == "b" else 1)
            while j < n and src[j] != '"':
                if src[j] == "\\":
                    j += 1
                j += 1
            if j >= n:
                raise LexError(f"unterminated string at {i}")
            j += 1
            toks.append(Tok("str", src[i:j], start, line))
            line += src.count("\n", i, j)
            i = j
            continue
        if c == "'":
            # char literal or lifetime
            m = re.compile(r"'(\\.[^']*|[^'\\])'").match(src, i)
            if m:
                i = m.end()
                toks.append(Tok("char", src[start:i], start, line))
                continue
            m = re.compile(r"'[A-Za-z_][A-Za-z0-9_]*").match(src, i)
            if m:
                i = m.end()
                toks.append(Tok("lifetime", src[start:i], start, line))
                continue
            raise LexError(f"stray quote at {i}")
        m = _IDENT.match(src, i)
        if m:
            i = m.end()
            toks.append(Tok("ident", src[start:i], start, line))
            continue
        m = _NUM.match(src, i)
        if m:
            i = m.end()
            toks.append(Tok("num", src[start:i], start, line))
            continue
        two = src[i:i + 2]
        if two in _COMBINED:
            # `..=`/`...` are not used by the extracted code; keep `..` only
            toks.append(Tok("punct", two, start, line))
            i += 2
            continue
        toks.append(Tok("punct", c, start, line))
        i += 1
    return toks


TRIVIA = ("ws", "lcomment", "bcomment")


def sig(toks):
    """significant tokens (no whitespace / comments)"""
    return [t for t in toks if t.kind not in TRIVIA]


def text(toks):
    return "".join(t.text for t in toks)


def sigtext(toks):
    """canonical one-line spelling of the significant tokens"""
    return " ".join(t.text for t in toks if t.kind not in TRIVIA)


OPEN = {"(": ")", "[": "]", "{": "}"}
CLOSE = {v: k for k, v in OPEN.items()}


def match_close(toks, i):
    """toks[i] is an opening bracket; return index of its matching close."""
    assert toks[i].kind == "punct" and toks[i].text in OPEN, toks[i]
    depth = 0
    j = i
    while j < len(toks):
        t = toks[j]
        if t.kind == "punct":
            if t.text in OPEN:
                depth += 1
            elif t.text in CLOSE:
                depth -= 1
                if depth == 0:
                    return j
        j += 1
    raise LexError(f"unbalanced bracket starting at token {i} ({toks[i]})")
