#!/bin/bash
# usage: seedrun.sh <seed name> [property ...]   applies /verif/seeded/<seed>/patch.diff to /repo, runs ./check for the
# given properties (default: the seed's own property), and undoes the patch straight afterwards.
S="$1"; shift
PROPS="$@"; [ -z "$PROPS" ] && PROPS="${S%%-*}"
cd /verif
if ! git -C /repo diff --quiet; then echo "/repo not clean"; exit 3; fi
git -C /repo apply /verif/seeded/$S/patch.diff || { echo "patch failed"; exit 3; }
for P in $PROPS; do
  out=$(VT_SKIP_VACUITY=1 ./check $P 2>&1); rc=$?
  echo "SEED $S check=$P exit=$rc :: $(echo "$out" | grep -E 'VIOLATION|UNDECIDED|OK|KNOWN' | head -3 | tr '\n' ' ' | cut -c1-400)"
done
git -C /repo checkout -- . ; git -C /repo status --short | head -3
git -C /verif checkout -- evidence 2>/dev/null   # evidence of a patched tree must not be left behind
