"""MANIFEST.setup_cmd: pre-build (offline) what the checks would otherwise build on first use: the replay crate against
/repo and the rsbdd binary for the CLI stand-in.  Best effort: the checks rebuild from /repo's current tree anyway."""
import os
import sys

from . import clisweep, replay


def main():
    os.makedirs(replay.WORK, exist_ok=True)
    b, err = replay.build_replay()
    print("replay crate:", "built" if b else "NOT built: " + err[-400:])
    b2, err2 = clisweep.build_binary(replay.REPO)
    print("rsbdd binary:", "built" if b2 else "NOT built: " + err2[-400:])
    import shutil
    v = shutil.which("verus")
    print("verus:", v or "NOT FOUND")
    return 0


if __name__ == "__main__":
    sys.exit(main())
