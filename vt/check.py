"""Driver:  ./check <Cxx> [--tier quick|thorough]      ./check replay <file>      ./check baseline

exit 0  every obligation in the property's closure was discharged (or only KNOWN-FINDINGs fail)
exit 1  a baseline obligation of the property fails with a definite reason  -> VIOLATION line
exit 2  undecided: extraction failed, unsupported construct, resource limit, vacuity guard tripped, ...
"""
import argparse
import glob
import hashlib
import json
import os
import re
import shutil
import subprocess
import sys
import time
import tomllib

from . import rustlex as L
from .build import build
from .extract import ExtractError
from .verus import run_verus

VERIF = os.path.dirname(os.path.dirname(os.path.abspath(__file__)))
REPO = os.environ.get("VERIF_REPO", "/repo")
UNIT = os.path.join(VERIF, "unit")
WORK = os.path.join(VERIF, ".work")


def log(*a):
    print(*a, flush=True)


def load_props():
    with open(os.path.join(UNIT, "props.toml"), "rb") as f:
        return tomllib.load(f)


def closure(props, pid):
    seen = []
    todo = [pid]
    while todo:
        p = todo.pop()
        if p in seen:
            continue
        seen.append(p)
        todo += props.get(p, {}).get("includes", [])
    return seen


# ------------------------------------------------------------------ static scans

ALLOWED_NODES = [
    r"nodes\s*:\s*RefCell\s*<",                       # field declaration
    r"nodes\s*:\s*RefCell::new\(nodes\)",             # struct literal in new()
    r"self\.nodes\.borrow\(\)\.len\(\)",
    r"self\.nodes\.borrow\(\)\s*\.get\(",
    r"self\s*\.nodes\s*\.borrow\(\)\s*\.get\(",
    r"let mut nodes_borrow = self\.nodes\.borrow_mut\(\);",
]


def access_scan(repo, b=None):
    """Inside a function under contract every use of the intern table is checked by Verus against the InternTable /
    TableRef shim (anything but borrow / borrow_mut / get / insert / len is a type error there).  This scan covers the
    rest of the crate: outside the functions under contract the table may only be read."""
    bad = []
    sites = []
    spans = {}
    if b is not None:
        for fid, f in b.fns.items():
            if fid.startswith("type::"):
                continue
            spans.setdefault(f["file"], []).append((f["line_start"], f["line_end"]))
    for path in sorted(glob.glob(os.path.join(repo, "src", "**", "*.rs"), recursive=True)):
        rel = os.path.relpath(path, repo)
        src = open(path).read()
        toks = [t for t in L.lex(src) if t.kind not in L.TRIVIA]
        for i, t in enumerate(toks):
            if not (t.kind == "ident" and t.text == "nodes"):
                continue
            pre = [x.text for x in toks[max(0, i - 7):i]]
            post = [x.text for x in toks[i + 1:i + 9]]
            if not rel.endswith("src/bdd.rs"):
                # outside bdd.rs only field accesses on something called `env` can be the intern table
                if not (pre[-1:] == ["."] and "env" in pre):
                    continue
            elif pre[-1:] != ["."] and post[:2] != [":", "RefCell"]:
                continue                      # a local variable / parameter that happens to be called `nodes`
            ctx = " ".join(x.text for x in toks[max(0, i - 3):i + 8])
            sites.append(f"{rel}:{t.line}: {ctx}")
            if any(lo <= t.line <= hi for lo, hi in spans.get(rel, [])):
                continue                      # inside a function under contract: checked by Verus
            ok = False
            if post[:2] == [":", "RefCell"]:
                ok = True                     # the field declaration
            elif post[:4] == [".", "borrow", "(", ")"] and post[4:6] in ([".", "len"], [".", "get"], [".", "contains_key"]):
                ok = True                     # read-only use
            if not ok:
                bad.append(f"{rel}:{t.line}: {ctx}")
    return sites, bad


ASSUME_PAT = re.compile(r"(assume\s*\(|admit\s*\(|#\[verifier::external_body\]|assume_specification|#\[verifier::external\]|"
                        r"#\[verifier::external_type_specification\]|\buninterp\b|#\[verifier::exec_allows_no_decreases_clause\])")


def assumption_scan(text):
    """list every trusted construct in the generated file as (kind, name of the item it sits on)"""
    out = []
    lines = text.split("\n")
    for i, ln in enumerate(lines):
        if ln.lstrip().startswith("//"):
            continue
        for m in ASSUME_PAT.finditer(ln):
            kind = m.group(1).strip("( ").strip()
            # name: next `fn NAME` / `struct NAME` / `[path]` within the following 6 lines
            name = "?"
            window = " ".join(lines[i:i + 7])
            window = window[window.find(m.group(1)):]
            mm = re.search(r"\[\s*(.+?)\s*\]\s*\(", window) if "assume_specification" in kind else None
            if mm:
                name = re.sub(r"\s+", "", mm.group(1))
            else:
                mm = re.search(r"\b(?:fn|struct|enum)\s+(\w+)", window)
                if mm:
                    name = mm.group(1)
            out.append((kind, name))
    return out


# ------------------------------------------------------------------ main check

class Undecided(Exception):
    pass


_STRUCTURAL = {";", "{", "}", "let", "=>", "fn", "loop", "while", "for", "in", "match", "if", "else", "return", "break", "continue", "|", "||", "mut", "move", "?"}


def in_place_edit(old_norm, new_norm):
    """True when the two normalised function texts differ only inside expressions: every changed token run is short and
    contains no token that starts, ends or separates statements, blocks, bindings, closures or control flow"""
    if not old_norm or not new_norm:
        return False
    import difflib
    a, b = old_norm.split(" "), new_norm.split(" ")
    sm = difflib.SequenceMatcher(None, a, b, autojunk=False)
    total = 0
    for tag, i1, i2, j1, j2 in sm.get_opcodes():
        if tag == "equal":
            continue
        changed = a[i1:i2] + b[j1:j2]
        total += len(changed)
        if any(t in _STRUCTURAL for t in changed):
            return False
    return 0 < total <= 40


def all_tags(b):
    tags = set(b.clauses.keys())
    for _, _, t in b.clause_lines:
        tags.add(t)
    for fid, c in b.contracts.items():
        for k in ("precondition", "overflow", "panic", "assertion", "termination"):
            tags.add(f"{fid}::implicit#{k}")
    return tags


def tag_props(b, tag):
    """property ids a tag is charged to"""
    if tag in b.clauses:
        return list(b.clauses[tag].props)
    fid = tag.split("::implicit#")[0] if "::implicit#" in tag else None
    if fid is None:
        m = re.match(r"^(.*)::(ghost\d+|prologue)$", tag)
        if m:
            fid = m.group(1)
            c = b.contracts.get(fid)
            if c is None:
                return []
            if m.group(2).startswith("ghost"):
                gi = int(m.group(2)[5:])
                if gi < len(c.ghosts) and c.ghosts[gi].get("props"):
                    return sorted(set(c.ghosts[gi]["props"]) | set(c.implicit))
            ps = []
            for cl in c.clauses:
                if cl.kind in ("ensures", "decreases"):
                    ps += cl.props
            for d in list(c.closures.values()) + list(c.loops.values()):
                for cl in d["clauses"]:
                    ps += cl.props
            return sorted(set(ps) | set(c.implicit))
        return []
    c = b.contracts.get(fid)
    return list(c.implicit) if c else []


def vacuity_mutator(fid, text):
    toks = L.lex(text)
    # first `{` at depth 0 after `fn`
    d = 0
    seen_fn = False
    for i, t in enumerate(toks):
        if t.kind == "ident" and t.text == "fn":
            seen_fn = True
        if not seen_fn:
            continue
        if t.kind == "punct" and t.text in ("(", "["):
            d += 1
        elif t.kind == "punct" and t.text in (")", "]"):
            d -= 1
        elif t.kind == "punct" and t.text == "{" and d == 0:
            return L.text(toks[:i + 1]) + " proof { assert(false); /*VACUITY*/ } " + L.text(toks[i + 1:])
    return None


def verify_with_degradation(wd):
    """build + verus; a function Verus cannot even ingest (unsupported construct, unknown callee, missing
    decreases clause, lost annotation anchor) is re-emitted with its body dropped and its contract assumed
    ("degraded") so that everything else is still verified.  Degraded functions are later decided by the
    replay search only (a concrete failing input on the real code), never by the failed proof."""
    forced = {}
    last = None
    for attempt in range(10):
        try:
            b = build(REPO, UNIT, force_external=forced)
        except (ExtractError, L.LexError) as e:
            raise Undecided(f"extraction: {e}")
        path = os.path.join(wd, "rsbdd_unit.rs")
        with open(path, "w") as f:
            f.write(b.text)
        res = None
        ckey = None
        if os.environ.get("VT_CACHE"):
            # developer convenience for batch runs over many properties on one tree (never used by the MANIFEST commands)
            import pickle
            ckey = os.path.join(WORK, "cache", hashlib.sha256(b.text.encode()).hexdigest() + ".pkl")
            if os.path.exists(ckey):
                res = pickle.load(open(ckey, "rb"))
        if res is None:
            res = run_verus(path, b)
            if ckey and not res.resource:
                import pickle
                os.makedirs(os.path.dirname(ckey), exist_ok=True)
                pickle.dump(res, open(ckey, "wb"))
        if res.resource and not res.hard_errors:
            res2 = run_verus(path, b, rlimit=80)
            if res2.resource:
                raise Undecided(f"resource limit: {res2.resource[:3]}")
            res = res2
        if not res.hard_errors:
            return b, path, res
        newly = {}
        for hs in res.hard_sites:
            fid = hs.get("fid")
            if fid and fid not in forced and fid not in b.degraded:
                newly.setdefault(fid, "verus cannot ingest the body: " + hs["message"][:200])
        if not newly:
            raise Undecided("verus rejected the unit outside any function under contract (unsupported construct / type error):\n"
                            + "\n".join(res.hard_errors[:3]))
        forced.update(newly)
        last = res
    raise Undecided("verus keeps rejecting the unit after degrading: " + "; ".join(forced))


ARM_WORDS = {"C03": ["&", "|", "^", "-", "!", "not", "and", "or", "nor", "nand", "=>", "<=", "implies", "iff", "eq", "if "],
             "C04": ["exists", "forall", "any ", "all "], "C05": ["["], "C06": ["lfp", "gfp", "mu ", "nu "]}


def degraded_props(b, fid, found):
    """properties charged for a concrete failing input found for a degraded function"""
    c = b.contracts.get(fid)
    if c is None:
        return []
    ps = set()
    for cl in c.clauses:
        ps |= set(cl.props)
    ps |= set(c.implicit)
    if c.arms and found is not None:
        armprops = set(p for pp, _ in c.arms for p in pp)
        case = found.get("case", "") or ""
        keep = set(p for p in armprops if any(w in case for w in ARM_WORDS.get(p, [])))
        ps = (ps - armprops) | keep
    return sorted(ps)


def run_property(pid, tier, seed):
    t0 = time.time()
    props = load_props()
    if pid not in props:
        raise Undecided(f"property {pid} is not handled by this machinery (see MANIFEST not_applicable)")
    pclosure = closure(props, pid)
    os.makedirs(WORK, exist_ok=True)
    wd = os.path.join(WORK, f"{pid}-{os.getpid()}")
    os.makedirs(wd, exist_ok=True)
    info = {"notes": []}
    try:
        # ---- the tree must compile: the verified text is only "the code that runs" if the crate builds (the replay crate
        #      links the library, clisweep builds the binary; both are incremental)
        from . import replay as R0
        rb0, err0 = R0.build_replay()
        if rb0 is None:
            raise Undecided("the library crate in the current tree does not build (or the replay crate no longer links against it): " + err0[-400:])
        from . import clisweep as C0
        bb0, err1 = C0.build_binary(REPO)
        if bb0 is None:
            raise Undecided("the rsbdd binary in the current tree does not build: " + err1[-400:])
        # ---- build + faithfulness + verus (with degradation)
        b, path, res = verify_with_degradation(wd)
        # ---- static scan of the code that is NOT under contract
        sites, bad = access_scan(REPO, b)
        if bad:
            raise Undecided("the intern table is written (or accessed in an unknown form) by code that is not under contract: " + "; ".join(bad))
        shape = b.fns.get("type::BDDEnv", {}).get("norm") or ""
        if "pub nodes : InternTable" not in shape:
            raise Undecided(f"BDDEnv no longer declares the intern table as `pub nodes: RefCell<FxHashMap<BDD, Rc<BDD>>>`: {shape}")
        # ---- assumption scan
        found = assumption_scan(b.text)
        for fid in b.degraded:           # one `external_body` per degraded function is accounted for separately
            key = ("#[verifier::external_body]", fid.split("::")[-1])
            if key in found:
                found.remove(key)
        with open(os.path.join(UNIT, "assumptions.toml"), "rb") as f:
            acfg = tomllib.load(f)
        known = {(a["kind"], a["name"]): a for a in acfg.get("assume", [])}
        from collections import Counter
        cnt = Counter(found)
        ndeg = len(b.degraded)
        unknown = sorted(set(x for x in found if x not in known))
        if unknown:
            raise Undecided(f"unlisted trusted constructs in the unit: {unknown}")
        # a construct that sits inside the body of a function (`in_fn`) disappears with the body when that function is degraded
        def expected(a):
            return a.get("count", 1) - (1 if a.get("in_fn") in b.degraded else 0)
        wrong = sorted((k, cnt.get(k, 0), expected(a)) for k, a in known.items() if cnt.get(k, 0) != expected(a))
        if wrong:
            raise Undecided(f"trusted constructs found a different number of times than listed in unit/assumptions.toml: {wrong}")
        used_assumptions = sorted(set(known[x]["id"] for x in found if x in known))
        # ---- baseline
        with open(os.path.join(VERIF, "baseline", "obligations.json")) as f:
            bl = json.load(f)
        baseline = set(bl["tags"])
        # functions whose proof relies on ghost blocks anchored inside the body AND whose text differs from the baseline:
        # a failed obligation there may be a displaced proof hint, so only a concrete failing input decides (like a degraded function)
        # ... unless the change is an in-place edit inside expressions (no statement, block, binding, closure or control-flow token
        # added, removed or changed): the ghost blocks then still sit between the same statements
        suspect = set(fid for fid in bl.get("mid_body_anchors", [])
                      if fid in b.fns and hashlib.sha1(b.fns[fid]["norm"].encode()).hexdigest() != bl.get("fn_hash", {}).get(fid)
                      and not in_place_edit(bl.get("fn_norm", {}).get(fid), b.fns[fid]["norm"]))
        tags = all_tags(b)
        newtags = sorted(t for t in b.clauses if t not in baseline)
        if newtags:
            raise Undecided(f"contract clauses not in baseline/obligations.json (run ./check baseline on a verifying tree): {newtags[:5]}")
        # ---- vacuity guard
        vac = None
        if not os.environ.get("VT_SKIP_VACUITY") and not b.degraded:
            vac = vacuity_guard(wd, b)
        # ---- thorough extras
        extra = {}
        if tier == "thorough":
            extra = thorough_extras(wd, b, path, res, seed)
            if not res.failures and not b.degraded:
                from .mutants import selftest
                pfids = set(t.split("::fn::")[0].split("::implicit#")[0].split("::closure")[0].split("::loop")[0].split("::ghost")[0].split("::prologue")[0]
                            for t in all_tags(b) if set(tag_props(b, t)) & set(pclosure))
                ms = selftest(limit=120, workers=10, seed=seed, fids=pfids)
                ms["note"] = ("one-token mutants of the copied function texts, each verified on its own; survivors are equivalent mutants, dead "
                              "branches under the preconditions, or contracts that do not pin the mutated detail - informational, no effect on the verdict")
                extra["mutation_selftest"] = ms
        # ---- triage of failed obligations in functions Verus could ingest
        relevant = []
        suspect_fail = {}
        arm_cache = {}
        for fl in res.failures:
            tp = tag_props(b, fl.tag)
            c = b.contracts.get(fl.fid)
            if c is not None and c.arms and set(pclosure) & set(p for ps, _ in c.arms for p in ps):
                # attribute per match arm: a property listed in `arms` is charged only if one of its arms fails
                if fl.fid not in arm_cache:
                    from .bisect import failing_arms
                    vname = "::".join(fl.fid.split("::")[1:])
                    arm_cache[fl.fid] = failing_arms(path, vname)
                bad_arms = [pat for pat, ok in arm_cache[fl.fid] if ok is not True]
                armprops = set(p for ps, _ in c.arms for p in ps)
                charged = set()
                for ps, kws in c.arms:
                    if any(any(kw in pat.split() for kw in kws) for pat in bad_arms):
                        charged |= set(ps)
                if not arm_cache[fl.fid]:
                    charged = armprops          # could not split: stay conservative
                tp = sorted((set(tp) - armprops) | (set(tp) & charged))
                info["notes"].append({"function": fl.fid, "failing_arms": bad_arms})
            if fl.callee_clause:
                tp = sorted(set(tp) | set(tag_props(b, fl.callee_clause)))
            if not fl.fid and not fl.tag:
                raise Undecided(f"a specification-library lemma failed (machinery defect, not a code defect): {fl.message} at line {fl.line}\n{fl.rendered}")
            if fl.tag and fl.tag not in baseline and fl.tag not in tags:
                raise Undecided(f"failing obligation {fl.tag} is not in the baseline")
            if set(tp) & set(pclosure):
                if fl.fid in suspect:
                    suspect_fail.setdefault(fl.fid, []).append((fl, tp))
                else:
                    relevant.append((fl, tp))
        ob_tags = sorted(t for t in tags if set(tag_props(b, t)) & set(pclosure))
        failed_tags = sorted(set(fl.tag for fl, _ in relevant))
        kf = load_known_findings()
        viol = []
        for fl, tp in relevant:
            hit = match_known(kf, pid, pclosure, fl, b)
            if hit:
                log(f"KNOWN-FINDING: property={pid} {hit['what']}")
            else:
                viol.append((fl, tp, None))
        # ---- degraded functions: only a concrete failing input on the real code decides
        undecided = []
        from .verus import Failure
        rbin = None
        for fid, reason in sorted(b.degraded.items()):
            allp = degraded_props(b, fid, None)
            c = b.contracts.get(fid)
            armp = set(p for ps, _ in c.arms for p in ps) if c is not None and c.arms else set()
            if not (set(allp) | armp) & set(pclosure):
                continue
            fl = Failure("unverifiable-body", "function body outside the verifier's reach: " + reason, fid, fid + "::degraded", 0, reason)
            from . import replay as R
            if rbin is None:
                rbin, err = R.build_replay()
                if rbin is None:
                    undecided.append(f"{fid}: {reason}; and the replay crate does not build against this tree: {err[-300:]}")
                    continue
            foundin = R.search(pid, fl, b, tier, seed, binary=rbin)
            if foundin is None:
                undecided.append(f"{fid}: {reason} (replay search found no failing input)")
                continue
            tp = degraded_props(b, fid, foundin)
            if set(tp) & set(pclosure):
                hit = match_known(kf, pid, pclosure, fl, b, foundin)
                if hit:
                    log(f"KNOWN-FINDING: property={pid} {hit['what']}")
                else:
                    viol.append((fl, tp, foundin))
                    failed_tags.append(fl.tag)
        for fid, fls in sorted(suspect_fail.items()):
            from . import replay as R
            fl0, tp0 = fls[0]
            if rbin is None:
                rbin, err = R.build_replay()
            foundin = R.search(pid, fl0, b, tier, seed, binary=rbin) if rbin else None
            if foundin is None:
                undecided.append(f"{fid}: its text changed and {len(fls)} obligation(s) of it no longer verify ({fl0.tag}: {fl0.message}); the proof of this "
                                 "function relies on ghost blocks anchored inside the body, which the change may have displaced, and the replay "
                                 "search found no failing input")
                continue
            tpu = sorted(set(p for _, tp in fls for p in tp))
            hit = match_known(kf, pid, pclosure, fl0, b, foundin)
            if hit:
                log(f"KNOWN-FINDING: property={pid} {hit['what']}")
            else:
                viol.append((fl0, tpu, foundin))
                failed_tags.append(fl0.tag)
        # ---- bounded stand-ins for functions outside the verifier's reach (labelled bounded, never counted as proved)
        standins = []
        bmodes = list(props.get(pid, {}).get("bounded", []))
        if tier == "thorough":
            # deeper exploration: the replay sweeps that observe this property's functions on the real crate
            bmodes += [m for m in PROP_MODES.get(pid, []) if m not in bmodes]
        for mode in bmodes:
            from . import replay as R
            if rbin is None:
                rbin, err = R.build_replay()
                if rbin is None:
                    raise Undecided("replay crate does not build against this tree (needed for the bounded stand-in): " + err[-300:])
            budget = 20000 if tier == "thorough" else 3000
            if mode in ("cli", "cliorder", "climodel", "clitable"):
                from . import clisweep
                if mode == "clitable":
                    foundin, checked, cerr = clisweep.sweep_table(REPO, budget, seed, aspect=R.ASPECTS.get(pid))
                else:
                    foundin, checked, cerr = {"cli": clisweep.sweep, "cliorder": clisweep.sweep_order, "climodel": clisweep.sweep_model}[mode](REPO, budget, seed)
                if cerr:
                    raise Undecided("the rsbdd binary does not build from this tree (needed for the bounded CLI stand-in): " + cerr[-300:])
                standins.append({"mode": mode, "label": "bounded - not counted as proved", "budget": budget, "seed": seed, "cases_checked": checked,
                                 "reports_only": R.ASPECTS.get(pid) if mode == "clitable" else None,
                                 "bound": ("real binary over 54 formula texts (valid, malformed, extreme) x 17 option sets, 9 ordering files, 3 input channels, invalid UTF-8, plus seeded random combinations; requirement: no panic"
                                           if mode == "cli" else
                                           "real binary, a 70-variable cube and 40+ formulas x {-m -t, -m -t -f true, -m -v, -m -c true|false -t}: exactly one satisfying row / listed model for a satisfiable formula (resp. for what -c X -t prints), none otherwise, and every assignment it covers satisfies it"
                                           if mode == "climodel" else
                                           "real binary, 36 formulas (incl. bound-before-free names, shadowing, fixed points, extreme constants) x {-t, -t -f true/false/any, -v} against the replay crate's independent evaluator: columns = the free variables in variable order; disjoint rows with the right result on every covered assignment; coverage = all / satisfying / falsifying assignments per filter; -v = exactly the satisfying assignments over free names; identical table / listing through --evaluate, file and stdin, for -b 1/2/3/5 and for the 12 filter spellings; combined options (-r -t -v, -m -t -v, -c X -t -v, ...) print exactly the sections each option prints on its own"
                                           if mode == "clitable" else
                                           "real binary, 14 formulas x 19 ordering files (permutations, subsets, supersets with unused names, duplicates, all kinds of punctuation and white space, comments, primed names): same satisfying assignments of the same names as the default order; listed variables in file order; -r export fed back with -o reproduces the identical table"),
                                 "failing_input": foundin})
                if foundin is not None:
                    fl = Failure("bounded-standin", "bounded CLI stand-in: the real binary misbehaved", "", f"{pid}::bounded#{mode}", 0, json.dumps(foundin))
                    hit = match_known(kf, pid, pclosure, fl, b, foundin)
                    if hit:
                        log(f"KNOWN-FINDING: property={pid} {hit['what']}")
                    else:
                        viol.append((fl, [pid], foundin))
                        failed_tags.append(fl.tag)
                continue
            foundin, checked = R.run_mode(rbin, mode, budget, seed, aspect=R.ASPECTS.get(pid))
            standins.append({"mode": mode, "label": "bounded - not counted as proved", "bound": R.BOUNDS.get(mode, ""), "budget": budget,
                             "reports_only": R.ASPECTS.get(pid),
                             "seed": seed, "cases_checked": checked, "failing_input": foundin})
            if foundin is not None:
                fl = Failure("bounded-standin", f"bounded stand-in `{mode}` found an input on which the real code disagrees with the reference",
                             "", f"{pid}::bounded#{mode}", 0, json.dumps(foundin))
                hit = match_known(kf, pid, pclosure, fl, b, foundin)
                if hit:
                    log(f"KNOWN-FINDING: property={pid} {hit['what']}")
                else:
                    viol.append((fl, [pid], foundin))
                    failed_tags.append(fl.tag)
        info["bounded_standins"] = standins
        replay_paths = []
        if viol:
            os.makedirs(os.path.join(VERIF, "replays"), exist_ok=True)
            seen = set()
            for fl, tp, foundin in viol:
                if fl.tag in seen:
                    continue
                seen.add(fl.tag)
                rp, found_input = write_replay(pid, fl, tp, b, res, tier, seed, foundin)
                replay_paths.append(rp)
                log(f"VIOLATION property={pid} replay={rp}" + ("" if found_input else " no-failing-input-found"))
        write_evidence(pid, tier, seed, b, res, pclosure, ob_tags + sorted(set(t for t in failed_tags if t.endswith("::degraded"))), sorted(set(failed_tags)),
                       used_assumptions, vac, extra, len(viol), time.time() - t0, sites, info)
        if extra.get("undecided"):
            raise Undecided(extra["undecided"])
        if viol:
            return 1
        if undecided:
            raise Undecided("functions outside the verifier's reach and no failing input found: " + " | ".join(undecided))
        return 0
    finally:
        shutil.rmtree(wd, ignore_errors=True)


def vacuity_guard(wd, b0):
    """(a) every function under contract must fail an injected `assert(false)`;
       (b) `ensures false` must not be provable from the prelude + spec library"""
    b = build(REPO, UNIT, mutate=vacuity_mutator)
    text = b.text.replace("} // verus!", "pub proof fn vacuity_inconsistent() ensures false {}\n} // verus!", 1)
    path = os.path.join(wd, "rsbdd_vacuity.rs")
    with open(path, "w") as f:
        f.write(text)
    res = run_verus(path, b)
    if res.hard_errors:
        raise Undecided("vacuity guard: verus rejected the guard file:\n" + "\n".join(res.hard_errors[:2]))
    lines = text.split("\n")
    hit_fids = set()
    incons = False
    for fl in res.failures:
        if fl.kind == "assertion" and 0 < fl.line <= len(lines) and "/*VACUITY*/" in lines[fl.line - 1]:
            from .build import fn_for_line
            fid = fn_for_line(b, fl.line)
            if fid:
                hit_fids.add(fid)
        if fl.kind == "postcondition" and "vacuity_inconsistent" in (fl.rendered or ""):
            incons = True
    under = [fid for (_, _, fid) in b.fn_lines if not (b.contracts.get(fid) and b.contracts[fid].external_body)]
    vacuous = sorted(set(under) - hit_fids)
    if vacuous and not res.resource:
        raise Undecided(f"vacuity guard: `assert(false)` at body entry verifies in {vacuous} (contradictory precondition or inconsistent axioms)")
    if not incons and not res.resource:
        raise Undecided("vacuity guard: `ensures false` is provable from the prelude/spec library (inconsistent axioms)")
    return {"functions_checked": len(under), "all_reject_assert_false": not vacuous, "ensures_false_rejected": incons,
            "wall_s": round(res.wall_s, 2)}


def thorough_extras(wd, b, path, res0, seed):
    out = {"seeds": []}
    flips = []
    base_fail = sorted(set(f.tag for f in res0.failures))
    for k, rl in ((1, 10), (2, 10), (3, 40), (4, 40)):
        r = run_verus(path, b, rlimit=rl, extra=["--smt-option", f"smt.random_seed={seed * 7 + k}", "--smt-option", f"sat.random_seed={seed * 7 + k}"])
        ft = sorted(set(f.tag for f in r.failures))
        out["seeds"].append({"seed": seed * 7 + k, "rlimit": rl, "verified": r.verified, "errors": r.errors,
                             "resource": r.resource[:2], "smt_ms": r.smt_ms})
        if r.hard_errors:
            out["seeds"][-1]["hard_error"] = r.hard_errors[0][:300]
            continue
        if ft != base_fail and not r.resource:
            flips.append({"seed": seed * 7 + k, "rlimit": rl, "differs": sorted(set(ft) ^ set(base_fail))})
    out["unstable"] = flips
    if flips:
        out["undecided"] = f"unstable obligations under seed/rlimit variation: {flips}"
    return out


# ------------------------------------------------------------------ known findings / replay / evidence

def load_known_findings():
    p = os.path.join(VERIF, "known_findings.json")
    if not os.path.exists(p):
        return {"findings": []}
    with open(p) as f:
        return json.load(f)


def site_fingerprint(fl, b):
    """the failing site: clause tag + the source text of the generated line the diagnostic points at"""
    lines = b.text.split("\n")
    txt = lines[fl.line - 1].strip() if 0 < fl.line <= len(lines) else ""
    return {"tag": fl.tag, "kind": fl.kind, "site": re.sub(r"\s+", " ", txt)}


def match_known(kf, pid, pclosure, fl, b, found=None):
    fp = site_fingerprint(fl, b)
    if found is not None:
        fp = {"tag": fl.tag, "kind": fl.kind, "site": f"{found.get('mode')}:{found.get('case')}"}
    for k in kf.get("findings", []):
        if k.get("status") != "known":
            continue
        if k.get("property") not in pclosure and k.get("property") != pid:
            continue
        if k.get("tag") == fp["tag"] and k.get("kind") == fp["kind"] and k.get("site") == fp["site"]:
            return k
    return None


def write_replay(pid, fl, tp, b, res, tier, seed, found=None):
    n = 0
    while os.path.exists(os.path.join(VERIF, "replays", f"{pid}-{n}.json")):
        n += 1
    rp = os.path.join(VERIF, "replays", f"{pid}-{n}.json")
    fn = b.fns.get(fl.fid, {})
    clause = b.clauses.get(fl.tag)
    doc = {
        "property": pid,
        "properties_charged": tp,
        "failed_obligation": fl.tag,
        "obligation_kind": fl.kind,
        "clause_text": clause.text if clause else None,
        "callee_clause": fl.callee_clause or None,
        "function": fl.fid,
        "repo_source": {"file": fn.get("file"), "line_start": fn.get("line_start"), "line_end": fn.get("line_end")},
        "function_text_normalised": fn.get("norm"),
        "site": site_fingerprint(fl, b),
        "verifier": {"tool": "verus", "version": res.version, "cmd": res.cmd},
        "verifier_output": fl.rendered,
        "failing_input": None,
        "replay_cmd": None,
    }
    if found is None:
        try:
            from .replay import search
            found = search(pid, fl, b, tier, seed)
        except Exception as e:          # the search is best effort and never decides anything
            doc["replay_search_error"] = repr(e)
    if found:
        doc["failing_input"] = found
        doc["replay_cmd"] = f"./check replay {rp}"
    with open(rp, "w") as f:
        json.dump(doc, f, indent=1)
    return rp, bool(found)


def write_evidence(pid, tier, seed, b, res, pclosure, ob_tags, failed_tags, used_assumptions, vac, extra, nviol, wall, sites, info=None):
    with open(os.path.join(UNIT, "assumptions.toml"), "rb") as f:
        acfg = tomllib.load(f)
    atext = {a["id"]: a["text"] for a in acfg.get("assumption", [])}
    fns = sorted(set(t.split("::fn::")[0].split("::implicit#")[0].split("::closure")[0].split("::loop")[0].split("::ghost")[0].split("::prologue")[0]
                     for t in ob_tags))
    spec_fns = {k: v for k, v in res.fn_stats.items() if v.get("mode") == "proof"}
    samples = []
    for t in ob_tags:
        if t in b.clauses and len(samples) < 6:
            fid = t.split("::fn::")[0]
            fn = b.fns.get(fid, {})
            samples.append({"obligation": t, "clause": b.clauses[t].text, "on": f"{fn.get('file')}:{fn.get('line_start')}-{fn.get('line_end')}"})
    n_ob = len(ob_tags) + len(spec_fns)
    # a failing spec-library lemma aborts the check as UNDECIDED before this point, so only tagged obligations can fail here
    n_failed = len(failed_tags)
    ev = {
        "property_id": pid,
        "tier": tier,
        "seed": seed,
        "level": "proof",
        "coverage": {
            "obligations": n_ob,
            "discharged": n_ob - n_failed,
            "checker_cmd": res.cmd + "   (file generated from /repo working tree by vt/build.py)",
            "trusted_base": [f"{a}: {atext.get(a, '')}" for a in sorted(set(used_assumptions) | set(acfg.get("always", [])))],
            "backend": f"Verus {res.version} / Z3 (bundled)",
            "solver_time_ms": res.smt_ms,
            "verus_total_ms": res.total_ms,
            "verus_items_verified": res.verified,
            "verus_items_failed": res.errors,
            "properties_in_closure": pclosure,
            "functions_under_contract": fns,
            "obligation_tags": ob_tags,
            "failed_obligations": failed_tags,
            "lemmas_in_spec_library": len(spec_fns),
            "per_function_smt": {k: v for k, v in sorted(res.fn_stats.items()) if v.get("mode") == "exec"},
            "normalisations_fired": summarize_norm(b.norm_log),
            "items_not_under_contract": b.not_under_contract,
            "source_sha256": b.sources,
            "intern_table_access_sites": sites,
            "vacuity_guard": vac,
            "degraded_functions": dict(b.degraded),
            "triage_notes": (info or {}).get("notes", []),
            "bounded_standins": (info or {}).get("bounded_standins", []),
            "samples": samples,
            "explanation": "each obligation is a requires/ensures/decreases/invariant clause (or the implicit panic / overflow / "
                           "precondition obligations) Verus generated for a function whose body is copied token for token from /repo; "
                           "discharged = accepted by Verus+Z3 for all inputs, no bound",
        },
        "assumptions": [f"{a}: {atext.get(a, '')}" for a in sorted(set(used_assumptions) | set(acfg.get("always", [])))],
        "wall_s": round(wall, 2),
        "violations": nviol,
    }
    if extra:
        ev["coverage"]["thorough"] = extra
    os.makedirs(os.path.join(VERIF, "evidence"), exist_ok=True)
    with open(os.path.join(VERIF, "evidence", f"{pid}.json"), "w") as f:
        json.dump(ev, f, indent=1)


def summarize_norm(logl):
    out = {}
    for e in logl:
        k = e["rule"]
        out.setdefault(k, {"count": 0, "examples": []})
        out[k]["count"] += 1
        ex = {"in": e["scope"], "before": e["before"][:80], "after": e["after"][:80]}
        if len(out[k]["examples"]) < 3 and ex not in out[k]["examples"]:
            out[k]["examples"].append(ex)
    return out


def make_baseline():
    b = build(REPO, UNIT)
    os.makedirs(WORK, exist_ok=True)
    wd = os.path.join(WORK, f"baseline-{os.getpid()}")
    os.makedirs(wd, exist_ok=True)
    try:
        path = os.path.join(wd, "rsbdd_unit.rs")
        with open(path, "w") as f:
            f.write(b.text)
        res = run_verus(path, b)
        kf = load_known_findings()
        bad = [fl for fl in res.failures if not match_known(kf, "*", [k["property"] for k in kf.get("findings", [])], fl, b)]
        if res.hard_errors or res.resource or bad:
            log("tree does not verify; baseline not written")
            for fl in bad[:10]:
                log("  ", fl.tag, fl.message, json.dumps(site_fingerprint(fl, b)))
            for h in res.hard_errors[:3]:
                log(h)
            return 2
        os.makedirs(os.path.join(VERIF, "baseline"), exist_ok=True)
        with open(os.path.join(VERIF, "baseline", "obligations.json"), "w") as f:
            json.dump({"tags": sorted(all_tags(b)), "verus_verified": res.verified,
                       "fn_hash": {fid: hashlib.sha1(f_["norm"].encode()).hexdigest() for fid, f_ in sorted(b.fns.items())},
                       "mid_body_anchors": sorted(fid for fid, c in b.contracts.items() if c.ghosts),
                       "fn_norm": {fid: b.fns[fid]["norm"] for fid, c in sorted(b.contracts.items()) if c.ghosts and fid in b.fns}}, f, indent=1)
        log(f"baseline written: {len(all_tags(b))} tags, {res.verified} verus items verified")
        return 0
    finally:
        shutil.rmtree(wd, ignore_errors=True)


PROP_MODES = {
    "C01": ["formula"], "C02": ["ops", "quant", "count", "model", "retain", "formula"], "C03": ["ops", "formula"],
    "C04": ["quant", "formula"], "C05": ["count", "formula"], "C06": ["fp", "formula"], "C07": ["model"],
    "C08": ["parse"], "C09": ["formula", "index"], "C10": ["cli"], "C11": ["index"], "C12": ["parse", "formula", "index"],
    "C13": ["history", "ops", "retain"], "C20": ["retain"],
}


def last_resort_replay(pid, tier, seed, reason):
    from . import replay as R
    from .verus import Failure
    try:
        rbin, err = R.build_replay()
    except Exception as e:
        return False
    if rbin is None:
        return False
    kf = load_known_findings()
    budget = "20000" if tier == "thorough" else "3000"
    modes = list(PROP_MODES.get(pid, []))
    try:
        modes += [m for m in load_props().get(pid, {}).get("bounded", []) if m not in modes]
    except Exception:
        pass
    for mode in modes:
        if mode in ("cli", "cliorder", "climodel", "clitable"):
            from . import clisweep
            try:
                if mode == "clitable":
                    d, _, cerr = clisweep.sweep_table(REPO, int(budget), seed, aspect=R.ASPECTS.get(pid))
                else:
                    d, _, cerr = {"cli": clisweep.sweep, "cliorder": clisweep.sweep_order, "climodel": clisweep.sweep_model}[mode](REPO, int(budget), seed)
            except Exception:
                continue
            if d is None:
                continue
        else:
            try:
                env_ = dict(os.environ)
                if R.ASPECTS.get(pid):
                    env_["REPLAY_ASPECT"] = R.ASPECTS[pid]
                p = subprocess.run([rbin, "search", mode, budget, str(seed)], capture_output=True, text=True, timeout=600, env=env_)
            except subprocess.TimeoutExpired:
                continue
            line = (p.stdout.strip().split("\n") or [""])[-1]
            if p.returncode != 1 or not line.startswith("{"):
                continue
            try:
                d = json.loads(line)
            except Exception:
                continue
            if d.get("case") is None:
                continue
        tag = f"{pid}::unit-not-verifiable"
        known = [k for k in kf.get("findings", []) if k.get("status") == "known" and k.get("property") == pid
                 and k.get("site") == f"{d['mode']}:{d['case']}"]
        if known:
            log(f"KNOWN-FINDING: property={pid} {known[0]['what']}")
            continue
        os.makedirs(os.path.join(VERIF, "replays"), exist_ok=True)
        n = 0
        while os.path.exists(os.path.join(VERIF, "replays", f"{pid}-{n}.json")):
            n += 1
        rp = os.path.join(VERIF, "replays", f"{pid}-{n}.json")
        with open(rp, "w") as f:
            json.dump({"property": pid, "failed_obligation": tag, "obligation_kind": "unverifiable-unit",
                       "verifier_output": "the unit generated from the current tree could not be verified: " + reason,
                       "failing_input": d, "replay_cmd": f"./check replay {rp}"}, f, indent=1)
        log(f"VIOLATION property={pid} replay={rp}")
        write_min_evidence(pid, tier, seed, reason, d)
        return True
    return False


def write_min_evidence(pid, tier, seed, reason, found):
    ev = {"property_id": pid, "tier": tier, "seed": seed, "level": "proof",
          "coverage": {"obligations": 1, "discharged": 0, "checker_cmd": "verus (unit rejected) + replay search on the real code",
                       "trusted_base": [], "explanation": "the verified unit could not be generated/ingested: " + reason[:500],
                       "samples": [found]},
          "assumptions": [], "wall_s": 0.0, "violations": 1}
    os.makedirs(os.path.join(VERIF, "evidence"), exist_ok=True)
    with open(os.path.join(VERIF, "evidence", f"{pid}.json"), "w") as f:
        json.dump(ev, f, indent=1)


def main(argv):
    if len(argv) >= 1 and argv[0] == "baseline":
        return make_baseline()
    if len(argv) >= 1 and argv[0] == "replay":
        from .replay import replay_file
        return replay_file(argv[1])
    ap = argparse.ArgumentParser()
    ap.add_argument("property")
    ap.add_argument("--tier", default=os.environ.get("VERIF_TIER", "quick"))
    a = ap.parse_args(argv)
    seed = int(os.environ.get("VERIF_SEED", "1") or 1)
    try:
        rc = run_property(a.property, a.tier, seed)
    except Exception as e:
        if not isinstance(e, Undecided):
            # a defect of the machinery itself (extractor crash, unexpected tool output) must never look like a violation
            import traceback
            e = Undecided("internal error of the checker (machinery defect, not a verdict): " + repr(e) + " :: "
                          + traceback.format_exc().strip().split("\n")[-3].strip()[:200])
        # the proof could not be attempted / completed.  A concrete failing input on the real code is still a
        # definite violation, so look for one before giving up (a miss leaves the verdict undecided, never OK).
        hit = last_resort_replay(a.property, a.tier, seed, str(e))
        if hit:
            return 1
        log(f"UNDECIDED property={a.property} reason={e}")
        return 2
    if rc == 0:
        log(f"OK property={a.property} tier={a.tier}: every obligation in its closure discharged (evidence/{a.property}.json)")
    return rc


if __name__ == "__main__":
    try:
        _rc = main(sys.argv[1:])
    except SystemExit:
        raise
    except BaseException as _e:      # never let a crash of the checker exit with the violation code
        print(f"UNDECIDED reason=internal error of the checker: {_e!r}", flush=True)
        _rc = 2
    sys.exit(_rc)
