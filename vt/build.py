"""Assemble the Verus file for a unit from /repo's working tree."""
import hashlib
import json
import os

from . import rustlex as L
from .extract import (A_CLOSE, A_OPEN, Emitter, ExtractError, apply_rewrites, emit_fn,
                      find_fn, find_impl_blocks, find_type, load_rewrites, load_toml,
                      parse_contracts, strip_annotations)


class Built:
    def __init__(self):
        self.text = ""
        self.clause_lines = []    # (first, last, tag)
        self.fn_lines = []        # (first, last, fid)
        self.clauses = {}         # tag -> Clause
        self.contracts = {}
        self.fns = {}             # fid -> dict(file, line_start, line_end, text_norm)
        self.norm_log = []
        self.sources = {}         # file -> sha256
        self.not_under_contract = []


def _read(repo, rel, cache):
    if rel not in cache:
        p = os.path.join(repo, rel)
        try:
            with open(p) as f:
                src = f.read()
        except OSError as e:
            raise ExtractError(f"cannot read {p}: {e}")
        cache[rel] = (src, L.lex(src))
    return cache[rel]


def build(repo, unit_dir, defines=None, mutate=None, force_external=None, extra_fns=None):
    """returns Built.  `defines`: dict of template substitutions in head/spec (e.g. SYM).
    `mutate`: optional callable(fid, text) -> text applied to each *copied* function text
    (used by the vacuity guard only)."""
    items = load_toml(os.path.join(unit_dir, "items.toml"))
    rewrites = load_rewrites(os.path.join(unit_dir, "normalise.toml"))
    contracts = parse_contracts(os.path.join(unit_dir, "contracts.vc"))
    b = Built()
    b.degraded = {}
    force_external = force_external or {}
    b.contracts = contracts
    cache = {}
    em = Emitter()

    def inc(name):
        with open(os.path.join(unit_dir, name)) as f:
            s = f.read()
        for k, v in (defines or {}).items():
            s = s.replace("@@" + k + "@@", v)
        em.w(s)
        if not s.endswith("\n"):
            em.w("\n")

    inc("head.rs")
    em.w("\n// ======================= types copied from /repo =======================\n")
    for t in items.get("type", []):
        src, toks = _read(repo, t["file"], cache)
        a, c = find_type(toks, t["name"])
        ttoks = toks[a:c + 1]
        tid = "type::" + t["name"]
        ttoks = apply_rewrites(ttoks, rewrites, tid, b.norm_log)
        em.w(f"// from {t['file']}:{toks[a].line}\n")
        for extra in t.get("attrs", []):
            em.w(f"{A_OPEN}{extra}{A_CLOSE}\n")
        em.w(L.text(ttoks))
        em.w("\n\n")
        b.fns[tid] = {"file": t["file"], "line_start": toks[a].line, "line_end": toks[c].line,
                      "orig": L.text(toks[a:c + 1]), "norm": L.sigtext(ttoks)}
    em.w("\n// ======================= specification library =======================\n")
    inc("spec.rs")
    em.w("\n// ======================= functions copied from /repo =======================\n")
    groups = {}
    order = []
    flist = list(items.get("fn", []))
    for g in items.get("fns", []):
        for nm in g["names"]:
            flist.append({"id": g["prefix"] + nm, "file": g["file"], "impl": g.get("impl", ""),
                          "out_impl": g["out_impl"], "name": nm})
    for f in (extra_fns or []):
        flist.append(f)
    for f in flist:
        key = f["out_impl"]
        if key not in groups:
            groups[key] = []
            order.append(key)
        groups[key].append(f)
    used_contracts = set()
    for key in order:
        if key:
            em.w(f"{key} {{\n")
            ind = "    "
        else:
            ind = ""
        for f in groups[key]:
            fid = f["id"]
            src, toks = _read(repo, f["file"], cache)
            if f.get("impl"):
                want = " ".join(f["impl"].split())
                blocks = [(h, o, c) for (h, o, c) in find_impl_blocks(toks) if " ".join(L.sigtext(L.lex(want)).split()) == h]
                if len(blocks) != 1:
                    raise ExtractError(f"{fid}: expected exactly one `{f['impl']}` block in {f['file']}, found {len(blocks)}")
                _, lo, hi = blocks[0]
                lo += 1
            else:
                lo, hi = 0, len(toks)
            start, fn_kw, bo, bc = find_fn(toks, lo, hi, f["name"])
            ftoks = toks[start:bc + 1]
            orig_text = L.text(ftoks)
            ftoks = apply_rewrites(ftoks, rewrites, fid, b.norm_log)
            if mutate is not None:
                new_text = mutate(fid, L.text(ftoks))
                if new_text is not None:
                    ftoks = L.lex(new_text)
            # re-locate fn keyword and body in the normalised tokens
            s2, kw2, bo2, bc2 = find_fn(ftoks, 0, len(ftoks), f["name"])
            ftoks = ftoks[s2:bc2 + 1]
            kw2 -= s2
            bo2 -= s2
            bc2 -= s2
            c = contracts.get(fid)
            if c is not None:
                used_contracts.add(fid)
            em.w(f"{ind}// from {f['file']}:{toks[fn_kw].line}  [{fid}]\n")
            emit_fn(em, fid, ftoks, kw2, bo2, bc2, c, indent=ind, force_external=force_external.get(fid), degraded=b.degraded)
            em.w("\n")
            b.fns[fid] = {"file": f["file"], "line_start": toks[start].line, "line_end": toks[bc].line,
                          "orig": orig_text, "norm": L.sigtext(ftoks)}
        if key:
            em.w("}\n\n")
    for fid in contracts:
        if fid not in used_contracts:
            raise ExtractError(f"contract for {fid} but no such item in items.toml")
    inc("tail.rs")
    b.text = em.text()
    b.clause_lines = em.clause_lines
    b.fn_lines = em.fn_lines
    for fid_, c in contracts.items():
        for cl in c.clauses:
            if not cl.tag:
                cl.tag = f"{fid_}::fn::{cl.kind}#{cl.name}"
            b.clauses[cl.tag] = cl
        for key, d in c.closures.items():
            label = d.get("label") or (("_" + str(key).replace(",", "_").replace("#", "").replace("()", "unit")) if not isinstance(key, int) else str(key))
            for cl in d["clauses"]:
                if not cl.tag:
                    cl.tag = f"{fid_}::closure{label}::{cl.kind}#{cl.name}"
                b.clauses[cl.tag] = cl
        for key, d in c.loops.items():
            for cl in d["clauses"]:
                if not cl.tag:
                    cl.tag = f"{fid_}::loop{key}::{cl.kind}#{cl.name}"
                b.clauses[cl.tag] = cl
    for rw in rewrites:
        if rw.count != "any" and rw.fired != rw.count and not os.environ.get("VT_LAX"):
            msg = f"normalisation {rw.rule} `{' '.join(rw.find)}` (scope {rw.scope}) fired {rw.fired} times, expected {rw.count} (lost anchor)"
            # a rule whose scope is exactly one function: that function's text changed shape -> it is degraded (decided by
            # replay only) instead of making every check undecided
            inscope = [fid for fid in b.fns if not fid.startswith("type::") and
                       (fid == rw.scope or (rw.scope.endswith("*") and fid.startswith(rw.scope[:-1])))]
            if len(inscope) == 1 and inscope[0] not in force_external and mutate is None:
                return build(repo, unit_dir, defines=defines, mutate=None,
                             force_external=dict(force_external, **{inscope[0]: msg}), extra_fns=extra_fns)
            if len(inscope) == 1 and inscope[0] in force_external:
                continue
            raise ExtractError(msg)
    for rel, (src, _) in cache.items():
        b.sources[rel] = hashlib.sha256(src.encode()).hexdigest()
    b.not_under_contract = items.get("not_under_contract", {}).get("items", [])
    if mutate is None:
        check_faithful(b)
    return b


def check_faithful(b):
    """every copied function, with annotation regions removed, must be token-identical to the
    normalised original"""
    lines = b.text.split("\n")
    for first, last, fid in b.fn_lines:
        seg = "\n".join(lines[first - 1:last])
        # drop the `// from` comment line(s)
        stripped = strip_annotations(seg)
        got = L.sigtext(L.lex(stripped))
        want = b.fns[fid]["norm"]
        c = b.contracts.get(fid)
        if (c is not None and c.external_body) or fid in b.degraded:
            # only the signature is copied
            sig_end = got.rfind("{")
            if not want.startswith(got[:sig_end].strip()):
                raise ExtractError(f"extraction not faithful for the signature of assumed fn {fid}")
            continue
        if got != want:
            # locate first difference
            g, w = got.split(" "), want.split(" ")
            k = 0
            while k < min(len(g), len(w)) and g[k] == w[k]:
                k += 1
            raise ExtractError(f"extraction not faithful for {fid}: token {k}: generated `{' '.join(g[k:k+8])}` vs source `{' '.join(w[k:k+8])}`")


def tag_for_line(b, line):
    for first, last, tag in b.clause_lines:
        if first <= line <= last:
            return tag
    return None


def fn_for_line(b, line):
    for first, last, fid in b.fn_lines:
        if first <= line <= last:
            return fid
    return None
