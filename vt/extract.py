"""Mechanical extraction of items from /repo into one Verus file.

  items.toml      which type / fn items to copy, from which file and impl block
  normalise.toml  the closed list of token rewrites (N-rules) that may be applied
  contracts.vc    requires / ensures / decreases / invariants keyed by function id

Function bodies are copied token for token.  Everything this tool inserts is wrapped
in /*<A*/ ... /*A>*/ markers so that `strip_annotations` can recover the copied text
and compare it with the (normalised) original on every run.
"""
import re
import tomllib
from dataclasses import dataclass, field

from . import rustlex as L
from .rustlex import Tok

A_OPEN = "/*<A*/"
A_CLOSE = "/*A>*/"


class ExtractError(Exception):
    """anything that means 'the machinery cannot see the code it expects' (exit 2)"""


class LostAnchor(ExtractError):
    """a contract annotation refers to a closure / loop / let / call the function body no longer has"""


# --------------------------------------------------------------------------- items

def load_toml(path):
    with open(path, "rb") as f:
        return tomllib.load(f)


def _impl_header_sig(toks, i):
    """toks[i] is ident `impl` at depth 0: return (sigtext of header, index of `{`)."""
    j = i
    while not (toks[j].kind == "punct" and toks[j].text == "{"):
        j += 1
    return L.sigtext(toks[i:j]), j


def find_impl_blocks(toks):
    """yield (header_sigtext, open_idx, close_idx) for each top-level impl block"""
    out = []
    depth = 0
    i = 0
    n = len(toks)
    while i < n:
        t = toks[i]
        if t.kind == "punct" and t.text in L.OPEN:
            depth += 1
        elif t.kind == "punct" and t.text in L.CLOSE:
            depth -= 1
        elif depth == 0 and t.kind == "ident" and t.text == "impl":
            hdr, o = _impl_header_sig(toks, i)
            c = L.match_close(toks, o)
            out.append((hdr, o, c))
            i = c + 1
            continue
        i += 1
    return out


def _item_start(toks, i, lo):
    """walk back from toks[i] (the `fn`/`enum`/`struct` keyword) over `pub`, `const`,
    `pub(crate)`, and outer attributes `#[..]`; doc comments are trivia and left out."""
    j = i
    while True:
        k = j - 1
        while k >= lo and toks[k].kind in L.TRIVIA:
            k -= 1
        if k < lo:
            break
        t = toks[k]
        if t.kind == "ident" and t.text in ("pub", "const", "unsafe", "async"):
            j = k
            continue
        if t.kind == "punct" and t.text == ")":
            # pub(crate)
            depth = 0
            m = k
            while m >= lo:
                if toks[m].kind == "punct" and toks[m].text == ")":
                    depth += 1
                elif toks[m].kind == "punct" and toks[m].text == "(":
                    depth -= 1
                    if depth == 0:
                        break
                m -= 1
            p = m - 1
            while p >= lo and toks[p].kind in L.TRIVIA:
                p -= 1
            if p >= lo and toks[p].kind == "ident" and toks[p].text == "pub":
                j = p
                continue
            break
        if t.kind == "punct" and t.text == "]":
            depth = 0
            m = k
            while m >= lo:
                if toks[m].kind == "punct" and toks[m].text == "]":
                    depth += 1
                elif toks[m].kind == "punct" and toks[m].text == "[":
                    depth -= 1
                    if depth == 0:
                        break
                m -= 1
            p = m - 1
            while p >= lo and toks[p].kind in L.TRIVIA:
                p -= 1
            if p >= lo and toks[p].kind == "punct" and toks[p].text == "#":
                j = p
                continue
            break
        break
    return j


def find_fn(toks, lo, hi, name):
    """find `fn name` at bracket depth 0 within toks[lo:hi]; return (start, body_open, body_close)"""
    depth = 0
    i = lo
    hits = []
    while i < hi:
        t = toks[i]
        if t.kind == "punct" and t.text in L.OPEN:
            depth += 1
        elif t.kind == "punct" and t.text in L.CLOSE:
            depth -= 1
        elif depth == 0 and t.kind == "ident" and t.text == "fn":
            k = i + 1
            while toks[k].kind in L.TRIVIA:
                k += 1
            if toks[k].kind == "ident" and toks[k].text == name:
                # find body open: first `{` at depth 0 after params
                m = k
                d = 0
                while True:
                    tt = toks[m]
                    if tt.kind == "punct" and tt.text in ("(", "["):
                        d += 1
                    elif tt.kind == "punct" and tt.text in (")", "]"):
                        d -= 1
                    elif tt.kind == "punct" and tt.text == "{" and d == 0:
                        break
                    elif tt.kind == "punct" and tt.text == ";" and d == 0:
                        raise ExtractError(f"fn {name} has no body")
                    m += 1
                c = L.match_close(toks, m)
                hits.append((_item_start(toks, i, lo), i, m, c))
                i = c + 1
                continue
        i += 1
    if len(hits) != 1:
        raise ExtractError(f"expected exactly one `fn {name}` in the selected block, found {len(hits)}")
    return hits[0]


def find_type(toks, name):
    depth = 0
    hits = []
    i = 0
    n = len(toks)
    while i < n:
        t = toks[i]
        if t.kind == "punct" and t.text in L.OPEN:
            depth += 1
        elif t.kind == "punct" and t.text in L.CLOSE:
            depth -= 1
        elif depth == 0 and t.kind == "ident" and t.text in ("enum", "struct", "type"):
            k = i + 1
            while toks[k].kind in L.TRIVIA:
                k += 1
            if toks[k].kind == "ident" and toks[k].text == name:
                m = k
                while not (toks[m].kind == "punct" and toks[m].text in ("{", ";")):
                    m += 1
                c = L.match_close(toks, m) if toks[m].text == "{" else m
                hits.append((_item_start(toks, i, 0), c))
        i += 1
    if len(hits) != 1:
        raise ExtractError(f"expected exactly one type `{name}`, found {len(hits)}")
    return hits[0]


# ----------------------------------------------------------------- normalisation

@dataclass
class Rewrite:
    rule: str
    scope: str
    find: list
    replace: str
    count: object     # int or "any"
    why: str = ""
    fired: int = 0


def load_rewrites(path):
    cfg = load_toml(path)
    out = []
    for r in cfg.get("rewrite", []):
        out.append(Rewrite(r["rule"], r.get("scope", "*"), r["find"].split(), r["replace"],
                           r.get("count", "any"), r.get("why", "")))
    return out


def _match_at(stoks, i, pat):
    """match pattern (list of token texts, `$$` = balanced run up to the close of the
    bracket opened by the previous pattern token) at significant-token index i.
    returns end index (exclusive) or -1"""
    j = i
    p = 0
    while p < len(pat):
        if j >= len(stoks):
            return -1
        if pat[p] == "$$":
            # previous token was an opener; skip to its matching close (not consumed)
            depth = 1
            while j < len(stoks):
                tx = stoks[j]
                if tx.kind == "punct" and tx.text in L.OPEN:
                    depth += 1
                elif tx.kind == "punct" and tx.text in L.CLOSE:
                    depth -= 1
                    if depth == 0:
                        break
                j += 1
            if j >= len(stoks):
                return -1
            p += 1
            continue
        if stoks[j].text != pat[p]:
            return -1
        j += 1
        p += 1
    return j


def apply_rewrites(toks, rewrites, scope_id, log):
    """apply every rewrite whose scope matches; returns new token list"""
    for rw in rewrites:
        if rw.scope != "*" and rw.scope != scope_id and not (rw.scope.endswith("*") and scope_id.startswith(rw.scope[:-1])):
            continue
        while True:
            idx = [k for k, t in enumerate(toks) if t.kind not in L.TRIVIA and t.kind != "nmark"]
            stoks = [toks[k] for k in idx]
            hit = None
            for si in range(len(stoks)):
                e = _match_at(stoks, si, rw.find)
                if e > 0:
                    hit = (si, e)
                    break
            if hit is None:
                break
            si, e = hit
            a, b = idx[si], idx[e - 1]
            before = L.text(toks[a:b + 1])
            new = [Tok(t.kind, t.text, -1, toks[a].line) for t in L.lex(rw.replace)]
            # mark so that a rewrite cannot re-match its own output
            for t in new:
                t.kind = t.kind
            toks = toks[:a] + [Tok("nmark", "", -1)] + new + [Tok("nmark", "", -1)] + toks[b + 1:]
            rw.fired += 1
            log.append({"rule": rw.rule, "scope": scope_id, "before": before, "after": rw.replace})
            # avoid infinite loops when replacement contains the pattern
            if rw.fired > 500:
                raise ExtractError(f"rewrite {rw.rule} {rw.find} does not terminate")
            if _would_rematch(rw):
                break
    return [t for t in toks if t.kind != "nmark"]


def _would_rematch(rw):
    rep = [t.text for t in L.sig(L.lex(rw.replace))]
    pat = [p for p in rw.find if p != "$$"]
    if "$$" in rw.find:
        return False
    n = len(pat)
    return any(rep[i:i + n] == pat for i in range(len(rep) - n + 1))


# ------------------------------------------------------------------- contracts

@dataclass
class Clause:
    kind: str          # requires | ensures | decreases | invariant | invariant_except_break | ensures(loop)
    name: str
    props: list
    text: str
    tag: str = ""


@dataclass
class FnContract:
    fid: str
    ret: str = ""
    attrs: list = field(default_factory=list)
    clauses: list = field(default_factory=list)
    prologue: str = ""
    closures: dict = field(default_factory=dict)   # ordinal -> {"header": str, "clauses": [Clause]}
    loops: dict = field(default_factory=dict)      # ordinal -> {"clauses": [Clause], "iter": str}
    ghosts: list = field(default_factory=list)     # mid-body ghost insertions keyed by ordinal anchors
    arms: list = field(default_factory=list)       # (props, keywords): properties charged only when a matching match-arm fails
    implicit: list = field(default_factory=list)   # property ids charged for implicit obligations
    external_body: bool = False
    trace: tuple = None                            # (ret name, ghost local, type, init): ghost output trace of a `()` function


_CL = re.compile(r"^(requires|ensures|decreases|invariant|invariant_except_break|recommends)\s+(\w+)\s*\[([^\]]*)\]\s*:\s*(.*)$")


def parse_contracts(path):
    """line format, see units/contracts.vc header"""
    out = {}
    cur = None
    target = None       # list of Clause currently appended to
    mode = None         # None | 'prologue' | 'clause'
    last = None
    with open(path) as f:
        lines = f.read().split("\n")
    for ln, raw in enumerate(lines, 1):
        if raw.strip().startswith("//") and mode not in ("prologue", "ghost"):
            continue
        if not raw.strip():
            if mode == "prologue" and cur is not None:
                cur.prologue += "\n"
            if mode == "ghost" and cur is not None:
                cur.ghosts[-1]["text"] += "\n"
            continue
        indent = len(raw) - len(raw.lstrip(" "))
        s = raw.strip()
        if indent == 0:
            if s.startswith("fn "):
                cur = FnContract(s[3:].strip())
                if cur.fid in out:
                    raise ExtractError(f"contracts:{ln}: duplicate fn {cur.fid}")
                out[cur.fid] = cur
                target = cur.clauses
                mode = None
                continue
            if s == "end":
                cur = None
                mode = None
                continue
            raise ExtractError(f"contracts:{ln}: unexpected top-level line {s!r}")
        if cur is None:
            raise ExtractError(f"contracts:{ln}: clause outside fn")
        if mode == "prologue" and indent >= 4:
            cur.prologue += raw[4:] + "\n"
            continue
        if mode == "ghost" and indent >= 4:
            cur.ghosts[-1]["text"] += raw[4:] + "\n"
            continue
        if indent == 2:
            mode = None
            if s.startswith("ret "):
                cur.ret = s[4:].strip()
                continue
            if s.startswith("attr "):
                cur.attrs.append(s[5:].strip())
                continue
            if s.startswith("implicit"):
                m = re.match(r"implicit\s*\[([^\]]*)\]", s)
                cur.implicit = m.group(1).split()
                continue
            m = re.match(r"arms\s*\[([^\]]*)\]\s*:\s*(.*)$", s)
            if m:
                cur.arms.append((m.group(1).split(), m.group(2).split()))
                continue
            if s == "external_body":
                cur.external_body = True
                continue
            m = re.match(r"trace\s+(\w+)\s+(\w+)\s*:\s*(.*?)\s*=\s*(.*)$", s)
            if m:
                cur.trace = (m.group(1), m.group(2), m.group(3), m.group(4))
                continue
            if s == "prologue:":
                mode = "prologue"
                continue
            m = re.match(r"ghost\s+(after\s+let(?:\s+\w+)?|wrap\s+selfcall|wrap\s+method\s+\w+|wrap\s+call\s+\w+|epilogue|after\s+call\s+\w+|loop_pre|loop_tail|loop_post)\s*#(\d+)(?:\s+as\s+(\w+))?(?:\s*\[([^\]]*)\])?\s*:$", s)
            if m:
                g = {"kind": " ".join(m.group(1).split()), "k": int(m.group(2)), "name": m.group(3) or "", "text": "",
                     "props": m.group(4).split() if m.group(4) else None}
                cur.ghosts.append(g)
                mode = "ghost"
                continue
            m = re.match(r"closure\s+((?:\w+(?:,\w+)*|\(\))#\d+|\d+)\s*:\s*(.*)$", s)
            if m:
                d = {"header": m.group(2).strip(), "clauses": []}
                key = m.group(1)
                cur.closures[int(key) if key.isdigit() else key] = d
                target = d["clauses"]
                continue
            m = re.match(r"loop\s+(\d+)\s*:\s*(.*)$", s)
            if m:
                d = {"iter": m.group(2).strip(), "clauses": []}
                cur.loops[int(m.group(1))] = d
                target = d["clauses"]
                continue
            if s == "fn:":
                target = cur.clauses
                continue
            m = _CL.match(s)
            if m:
                last = Clause(m.group(1), m.group(2), m.group(3).split(), m.group(4))
                target.append(last)
                mode = "clause"
                continue
            raise ExtractError(f"contracts:{ln}: cannot parse {s!r}")
        if indent == 4:
            m = _CL.match(s)
            if m:
                last = Clause(m.group(1), m.group(2), m.group(3).split(), m.group(4))
                target.append(last)
                mode = "clause"
                continue
        if indent >= 4 and mode == "clause":
            last.text += "\n            " + s
            continue
        raise ExtractError(f"contracts:{ln}: cannot parse {s!r}")
    return out


# -------------------------------------------------------------------- emission

class Emitter:
    def __init__(self):
        self.parts = []
        self.line = 1
        self.clause_lines = []     # (first_line, last_line, tag)
        self.fn_lines = []         # (first_line, last_line, fid)

    def w(self, s):
        self.parts.append(s)
        self.line += s.count("\n")

    def clause(self, tag, s):
        first = self.line
        self.w(s)
        last = self.line
        self.w("\n")
        self.clause_lines.append((first, last, tag))

    def text(self):
        return "".join(self.parts)


def _closure_param_names(hdr_toks):
    """names bound by a closure header `|a, b: T|` (simple identifiers only)"""
    names = []
    depth = 0
    expect_name = True
    for t in hdr_toks:
        if t.kind in L.TRIVIA:
            continue
        if t.kind == "punct" and t.text in ("(", "[", "<"):
            depth += 1
        elif t.kind == "punct" and t.text in (")", "]", ">"):
            depth -= 1
        elif t.kind == "punct" and t.text == "," and depth == 0:
            expect_name = True
        elif t.kind == "punct" and t.text == ":" and depth == 0:
            expect_name = False
        elif t.kind == "ident" and expect_name and depth == 0:
            names.append(t.text)
            expect_name = False
    return names


def find_closures(body):
    """indices (start_of_header, end_of_header_exclusive, body_start, body_end_exclusive, is_block)
    of closure expressions in token list `body`, in source order (outer before inner)."""
    out = []
    prev_sig = None
    i = 0
    n = len(body)
    starters = {"(", ",", "=", "{", "=>", ";"}
    while i < n:
        t = body[i]
        if t.kind in L.TRIVIA:
            i += 1
            continue
        is_start = False
        if t.kind == "punct" and t.text in ("|", "||"):
            if prev_sig is None or (prev_sig.kind == "punct" and prev_sig.text in starters) or \
                    (prev_sig.kind == "ident" and prev_sig.text in ("move", "return")):
                is_start = True
        if is_start:
            if t.text == "||":
                he = i + 1
            else:
                j = i + 1
                while not (body[j].kind == "punct" and body[j].text == "|"):
                    j += 1
                he = j + 1
            # optional `-> T` is not used in the sources
            k = he
            while body[k].kind in L.TRIVIA:
                k += 1
            if body[k].kind == "punct" and body[k].text == "{":
                c = L.match_close(body, k)
                out.append((i, he, k, c + 1, True))
            else:
                d = 0
                m = k
                while m < n:
                    tt = body[m]
                    if tt.kind == "punct" and tt.text in L.OPEN:
                        d += 1
                    elif tt.kind == "punct" and tt.text in L.CLOSE:
                        if d == 0:
                            break
                        d -= 1
                    elif tt.kind == "punct" and tt.text == "," and d == 0:
                        break
                    m += 1
                # trim trailing trivia
                e = m
                while body[e - 1].kind in L.TRIVIA:
                    e -= 1
                out.append((i, he, k, e, False))
            prev_sig = t
            i = he
            continue
        prev_sig = t
        i += 1
    return out


def find_loops(body):
    """indices of `{` opening the body of each loop/while/for in source order, with the
    index of the keyword"""
    out = []
    for i, t in enumerate(body):
        if t.kind == "ident" and t.text in ("loop", "while", "for"):
            # `for` in `for<'a>` HRTB or `impl X for Y` cannot occur inside a fn body here
            j = i + 1
            d = 0
            while True:
                tt = body[j]
                if tt.kind == "punct" and tt.text in ("(", "["):
                    d += 1
                elif tt.kind == "punct" and tt.text in (")", "]"):
                    d -= 1
                elif tt.kind == "punct" and tt.text == "{" and d == 0:
                    break
                j += 1
            out.append((i, j))
    return out


def find_lets(body):
    """(let_idx, semicolon_idx) for each `let` statement (not `if let` / `while let`) in source order"""
    out = []
    prev = None
    for i, t in enumerate(body):
        if t.kind in L.TRIVIA:
            continue
        if t.kind == "ident" and t.text == "let" and not (prev is not None and prev.kind == "ident" and prev.text in ("if", "while")) \
                and not (prev is not None and prev.kind == "punct" and prev.text in ("&&", "||")):
            d = 0
            j = i
            while True:
                tt = body[j]
                if tt.kind == "punct" and tt.text in L.OPEN:
                    d += 1
                elif tt.kind == "punct" and tt.text in L.CLOSE:
                    d -= 1
                elif tt.kind == "punct" and tt.text == ";" and d == 0:
                    break
                j += 1
            out.append((i, j))
        prev = t
    return out


def find_selfcalls(body):
    """(start_idx, close_paren_idx) of every `self(.ident)+(`...`)` call in source order"""
    out = []
    sg = [i for i, t in enumerate(body) if t.kind not in L.TRIVIA]
    for p, i in enumerate(sg):
        t = body[i]
        if t.kind == "ident" and t.text == "self":
            if p > 0 and body[sg[p - 1]].kind == "punct" and body[sg[p - 1]].text in (".", "::"):
                continue
            q = p + 1
            ok = False
            while q + 1 < len(sg) and body[sg[q]].kind == "punct" and body[sg[q]].text == "." and body[sg[q + 1]].kind == "ident":
                q += 2
                ok = True
                if q < len(sg) and body[sg[q]].kind == "punct" and body[sg[q]].text == "(":
                    break
            if ok and q < len(sg) and body[sg[q]].kind == "punct" and body[sg[q]].text == "(":
                out.append((i, L.match_close(body, sg[q])))
    return out


def find_fncalls(body, name):
    """(start_idx, close_paren_idx) of every plain call `name(`...`)` (not a method, not a path segment) in source order"""
    out = []
    sg = [i for i, t in enumerate(body) if t.kind not in L.TRIVIA]
    for p, i in enumerate(sg):
        t = body[i]
        if t.kind == "ident" and t.text == name and p + 1 < len(sg) and body[sg[p + 1]].kind == "punct" and body[sg[p + 1]].text == "(":
            if p > 0 and body[sg[p - 1]].kind == "punct" and body[sg[p - 1]].text in (".", "::"):
                continue
            if p > 0 and body[sg[p - 1]].kind == "ident" and body[sg[p - 1]].text == "fn":
                continue
            out.append((i, L.match_close(body, sg[p + 1])))
    return out


def find_methodcalls(body, name):
    """(start_idx, close_paren_idx) of every `<receiver chain>.name(`...`)` call in source order"""
    out = []
    sg = [i for i, t in enumerate(body) if t.kind not in L.TRIVIA]
    for p, i in enumerate(sg):
        t = body[i]
        if not (t.kind == "ident" and t.text == name):
            continue
        if not (p > 0 and body[sg[p - 1]].kind == "punct" and body[sg[p - 1]].text == "."):
            continue
        if not (p + 1 < len(sg) and body[sg[p + 1]].kind == "punct" and body[sg[p + 1]].text == "("):
            continue
        # walk back over the receiver: ident (. ident | :: ident | (...) | [...])*
        q = p - 2
        while q >= 0:
            tt = body[sg[q]]
            if tt.kind == "punct" and tt.text in (")", "]"):
                d = 0
                while q >= 0:
                    x = body[sg[q]]
                    if x.kind == "punct" and x.text in (")", "]"):
                        d += 1
                    elif x.kind == "punct" and x.text in ("(", "["):
                        d -= 1
                        if d == 0:
                            break
                    q -= 1
                q -= 1
                continue
            if tt.kind == "ident":
                if q > 0 and body[sg[q - 1]].kind == "punct" and body[sg[q - 1]].text in (".", "::"):
                    q -= 2
                    continue
                break
            break
        start = sg[max(q, 0)]
        out.append((start, L.match_close(body, sg[p + 1])))
    return out


def split_signature(ftoks, fn_kw, body_open):
    """ftoks[fn_kw] is `fn`. returns dict of index ranges: ret=(a,b) tokens of the return type
    (or None), where=(a,b) or None"""
    # params: first `(` at angle-depth 0 after name
    i = fn_kw + 1
    # skip name
    while ftoks[i].kind != "ident":
        i += 1
    i += 1
    # generics
    while ftoks[i].kind in L.TRIVIA:
        i += 1
    if ftoks[i].kind == "punct" and ftoks[i].text == "<":
        d = 0
        while True:
            tt = ftoks[i]
            if tt.kind == "punct" and tt.text == "<":
                d += 1
            elif tt.kind == "punct" and tt.text == ">":
                d -= 1
                if d == 0:
                    i += 1
                    break
            i += 1
    while not (ftoks[i].kind == "punct" and ftoks[i].text == "("):
        i += 1
    pc = L.match_close(ftoks, i)
    j = pc + 1
    ret = None
    where = None
    k = j
    while k < body_open and ftoks[k].kind in L.TRIVIA:
        k += 1
    if k < body_open and ftoks[k].kind == "punct" and ftoks[k].text == "->":
        a = k + 1
        while ftoks[a].kind in L.TRIVIA:
            a += 1
        b = a
        while b < body_open and not (ftoks[b].kind == "ident" and ftoks[b].text == "where"):
            b += 1
        e = b
        while ftoks[e - 1].kind in L.TRIVIA:
            e -= 1
        ret = (a, e)
        k = b
    if k < body_open and ftoks[k].kind == "ident" and ftoks[k].text == "where":
        where = (k, body_open)
    return {"params_close": pc, "ret": ret, "where": where}


def emit_fn(em, fid, ftoks, fn_kw, body_open, body_close, contract, indent="    ", force_external=None, degraded=None):
    """write one function: copied tokens + annotation regions.
    force_external: reason string -> the body is dropped and the contract assumed (function outside the verifier's reach)"""
    c = contract
    if force_external is None and c is not None and not c.external_body:
        # dry run: do all annotation anchors still resolve?
        try:
            _annotate_body(Emitter(), fid, ftoks[body_open + 1:body_close], c, indent)
        except LostAnchor as e:
            force_external = str(e)
    if force_external is not None and degraded is not None:
        degraded[fid] = force_external
    first_line = em.line
    if c is None and force_external is not None:
        em.w(f"{indent}{A_OPEN}#[verifier::external_body]{A_CLOSE}\n")
    if c is not None:
        for a in c.attrs:
            em.w(f"{indent}{A_OPEN}{a}{A_CLOSE}\n")
        if c.external_body or force_external is not None:
            em.w(f"{indent}{A_OPEN}#[verifier::external_body]{A_CLOSE}\n")
    em.w(indent)
    sp = split_signature(ftoks, fn_kw, body_open)
    # header up to return type
    if sp["ret"] is not None and c is not None and c.ret:
        a, e = sp["ret"]
        em.w(L.text(ftoks[:a]))
        em.w(f"{A_OPEN}({c.ret}: {A_CLOSE}")
        em.w(L.text(ftoks[a:e]))
        em.w(f"{A_OPEN}){A_CLOSE}")
        em.w(L.text(ftoks[e:body_open]).rstrip())
    elif c is not None and c.trace is not None:
        # ghost output trace: a function without a return value gets a ghost (erased) result
        if sp["ret"] is not None:
            raise ExtractError(f"{fid}: `trace` needs a function without a return type")
        cut = sp["where"][0] if sp["where"] is not None else body_open
        em.w(L.text(ftoks[:cut]).rstrip())
        em.w(f" {A_OPEN}-> ({c.trace[0]}: Ghost<{c.trace[2]}>){A_CLOSE} ")
        em.w(L.text(ftoks[cut:body_open]).rstrip())
    else:
        em.w(L.text(ftoks[:body_open]).rstrip())
    em.w("\n")
    if c is not None:
        _emit_clauses(em, fid, "fn", c.clauses, indent + "    ")
    em.w(indent + "{")
    body = ftoks[body_open + 1:body_close]
    if c is not None and c.trace is not None and force_external is None and not c.external_body:
        em.w(f"\n{indent}    {A_OPEN}let ghost mut {c.trace[1]}: {c.trace[2]} = {c.trace[3]};{A_CLOSE}")
    if c is not None and c.prologue.strip():
        em.w(f"\n{indent}    {A_OPEN}")
        em.clause(f"{fid}::prologue", _indent_block(c.prologue.rstrip("\n"), indent + "    "))
        em.w(f"{indent}    {A_CLOSE}")
    if force_external is not None:
        if c is None:
            em.w(f"{indent}{A_OPEN}#[verifier::external_body]{A_CLOSE}\n" if False else "")
        em.w(f" {A_OPEN}unimplemented!() /* DEGRADED: {force_external[:160].replace('*/', '* /')} */{A_CLOSE} ")
    elif c is not None and c.external_body:
        # assumed contract: the body is neither verified nor compiled; it is dropped from the unit
        em.w(f" {A_OPEN}unimplemented!() /* body not under contract: assumed */{A_CLOSE} ")
    else:
        # annotate closures and loops inside the body
        em.w(_annotate_body(em, fid, body, c, indent))
        if c is not None and c.trace is not None:
            em.w(f"{A_OPEN};\n")
            for gi, g in enumerate(c.ghosts):
                if g["kind"] == "epilogue":
                    em.clause(f"{fid}::ghost{gi}", _indent_block(g["text"].rstrip("\n"), indent + "    "))
            em.w(f"{indent}    Ghost({c.trace[1]})\n{indent}{A_CLOSE}")
    em.w("}\n")
    em.fn_lines.append((first_line, em.line - 1, fid))


def _indent_block(s, ind):
    return "\n".join((ind + l if l.strip() else l) for l in s.split("\n"))


def _emit_clauses(em, fid, where, clauses, ind):
    order = ["requires", "recommends", "invariant_except_break", "invariant", "ensures", "decreases"]
    for kind in order:
        cs = [c for c in clauses if c.kind == kind]
        if not cs:
            continue
        em.w(f"{ind}{A_OPEN}{kind}\n")
        for c in cs:
            c.tag = f"{fid}::{where}::{kind}#{c.name}"
            em.clause(c.tag, f"{ind}    {c.text},")
        em.w(f"{ind}{A_CLOSE}\n")


def _annotate_body(em, fid, body, c, indent):
    """returns nothing useful; writes the body through em (so that line numbers are tracked)"""
    closures = find_closures(body)
    loops = find_loops(body)
    cl_ann = c.closures if c is not None else {}
    lp_ann = c.loops if c is not None else {}
    # closures may be keyed by ordinal (`closure 2:`) or by bound names (`closure b#1:` = second closure binding exactly `b`)
    resolved = {}
    for k in list(cl_ann.keys()):
        if isinstance(k, int):
            if k >= len(closures):
                raise LostAnchor(f"{fid}: contract annotates closure #{k} but the body has {len(closures)} (lost anchor)")
            resolved[k] = cl_ann[k]
        else:
            names, ordn = k.split("#")
            want = [] if names == "()" else names.split(",")
            hits = [ci for ci, (hs, he, bs, be, ib) in enumerate(closures)
                    if (_closure_param_names(body[hs + 1:he - 1]) if body[hs].text == "|" else []) == want]
            if int(ordn) >= len(hits):
                raise LostAnchor(f"{fid}: contract annotates closure `{k}` but the body has {len(hits)} closures binding {want} (lost anchor)")
            cl_ann[k]["label"] = "_" + k.replace(",", "_").replace("#", "").replace("()", "unit")
            resolved[hits[int(ordn)]] = cl_ann[k]
    cl_ann = resolved
    for k in lp_ann:
        if k >= len(loops):
            raise LostAnchor(f"{fid}: contract annotates loop #{k} but the body has {len(loops)} (lost anchor)")
    # events: position -> action
    ins_before = {}   # token index -> list of (kind, payload)
    skip = set()
    for k, d in cl_ann.items():
        hs, he, bs, be, is_block = closures[k]
        orig_names = _closure_param_names(body[hs + 1:he - 1]) if body[hs].text == "|" else []
        new_hdr = L.lex(d["header"])
        # header is `|params| -> (r: T)`; names between the bars must agree
        bars = [i for i, t in enumerate(new_hdr) if t.kind == "punct" and t.text in ("|", "||")]
        if new_hdr[bars[0]].text == "||":
            new_names = []
        else:
            new_names = _closure_param_names(new_hdr[bars[0] + 1:bars[1]])
        if orig_names != new_names:
            raise ExtractError(f"{fid}: closure #{k} binds {orig_names} in the source but the contract header binds {new_names}")
        for i in range(hs, he):
            skip.add(i)
        ins_before.setdefault(hs, []).append(("closure_open", (k, d, L.text(body[hs:he]), is_block)))
        if not is_block:
            ins_before.setdefault(be, []).append(("closure_close", None))
    for k, d in lp_ann.items():
        kw, ob = loops[k]
        ins_before.setdefault(ob, []).append(("loop", (k, d)))
        if d["iter"]:
            # `for x in EXPR {`  ->  `for x in <iter-name>: EXPR`
            j = kw
            while j < ob and not (body[j].kind == "ident" and body[j].text == "in"):
                j += 1
            if j >= ob or not (body[kw].kind == "ident" and body[kw].text == "for"):
                raise LostAnchor(f"{fid}: loop #{k} is annotated as a `for` loop with a ghost iterator but is no longer one (lost anchor)")
            ins_before.setdefault(j + 1, []).append(("raw", f" {A_OPEN}{d['iter']}:{A_CLOSE}"))
    ins_after = {}
    if c is not None and c.ghosts:
        lets = find_lets(body)
        calls = find_selfcalls(body)
        for gi, g in enumerate(c.ghosts):
            k = g["k"]
            if g["kind"].startswith("after let ") :
                nm = g["kind"].split()[2]
                named = []
                for (li, lj) in lets:
                    q = li + 1
                    while body[q].kind in L.TRIVIA or (body[q].kind == "ident" and body[q].text == "mut"):
                        q += 1
                    if body[q].kind == "ident" and body[q].text == nm:
                        named.append((li, lj))
                if k >= len(named):
                    raise LostAnchor(f"{fid}: ghost anchor `let {nm}`#{k} but the body has {len(named)} such let statements (lost anchor)")
                ins_after.setdefault(named[k][1], []).append(("ghost", (gi, g)))
            elif g["kind"] == "after let":
                if k >= len(lets):
                    raise LostAnchor(f"{fid}: ghost anchor let#{k} but the body has {len(lets)} let statements (lost anchor)")
                ins_after.setdefault(lets[k][1], []).append(("ghost", (gi, g)))
            elif g["kind"] == "wrap selfcall":
                if k >= len(calls):
                    raise LostAnchor(f"{fid}: ghost anchor selfcall#{k} but the body has {len(calls)} self calls (lost anchor)")
                ins_before.setdefault(calls[k][0], []).insert(0, ("raw", f"{A_OPEN}{{ let {g['name']} = {A_CLOSE}"))
                ins_after.setdefault(calls[k][1], []).append(("wrapclose", (gi, g)))
            elif g["kind"].startswith("wrap method "):
                mc = find_methodcalls(body, g["kind"].split()[2])
                if k >= len(mc):
                    raise LostAnchor(f"{fid}: ghost anchor {g['kind']}#{k} but the body has {len(mc)} such calls (lost anchor)")
                ins_before.setdefault(mc[k][0], []).insert(0, ("raw", f"{A_OPEN}{{ let {g['name']} = {A_CLOSE}"))
                ins_after.setdefault(mc[k][1], []).append(("wrapclose", (gi, g)))
            elif g["kind"].startswith("wrap call "):
                fc = find_fncalls(body, g["kind"].split()[2])
                if k >= len(fc):
                    raise LostAnchor(f"{fid}: ghost anchor {g['kind']}#{k} but the body has {len(fc)} such calls (lost anchor)")
                ins_before.setdefault(fc[k][0], []).insert(0, ("raw", f"{A_OPEN}{{ let {g['name']} = {A_CLOSE}"))
                ins_after.setdefault(fc[k][1], []).append(("wrapclose", (gi, g)))
            elif g["kind"].startswith("after call "):
                nm = g["kind"].split()[2]
                hits = []
                sgi = [i2 for i2, t2 in enumerate(body) if t2.kind not in L.TRIVIA]
                for pp, i2 in enumerate(sgi):
                    if body[i2].kind == "ident" and body[i2].text == nm and pp + 1 < len(sgi) and body[sgi[pp + 1]].kind == "punct" and body[sgi[pp + 1]].text == "(":
                        cp = L.match_close(body, sgi[pp + 1])
                        # end of the enclosing statement: first `;` not nested deeper than the call
                        d = 0
                        m = cp + 1
                        while m < len(body):
                            tt = body[m]
                            if tt.kind == "punct" and tt.text in L.OPEN:
                                d += 1
                            elif tt.kind == "punct" and tt.text in L.CLOSE:
                                d -= 1
                            elif tt.kind == "punct" and tt.text == ";" and d <= 0:
                                break
                            m += 1
                        if m < len(body):
                            hits.append(m)
                if k >= len(hits):
                    raise LostAnchor(f"{fid}: ghost anchor `call {nm}`#{k} but the body has {len(hits)} such statements (lost anchor)")
                ins_after.setdefault(hits[k], []).append(("ghost", (gi, g)))
            elif g["kind"] == "loop_pre":
                if k >= len(loops):
                    raise LostAnchor(f"{fid}: ghost anchor loop#{k} but the body has {len(loops)} loops (lost anchor)")
                ins_before.setdefault(loops[k][0], []).insert(0, ("ghostraw", (gi, g)))
            elif g["kind"] == "loop_post":
                if k >= len(loops):
                    raise LostAnchor(f"{fid}: ghost anchor loop#{k} but the body has {len(loops)} loops (lost anchor)")
                ins_after.setdefault(L.match_close(body, loops[k][1]), []).append(("ghost", (gi, g)))
            elif g["kind"] == "loop_tail":
                if k >= len(loops):
                    raise LostAnchor(f"{fid}: ghost anchor loop#{k} but the body has {len(loops)} loops (lost anchor)")
                ins_before.setdefault(L.match_close(body, loops[k][1]), []).append(("ghostraw", (gi, g)))
    for i, t in enumerate(body + [Tok("ws", "", -1)]):
        for kind, payload in ins_before.get(i, []):
            if kind == "raw":
                em.w(payload)
            elif kind == "closure_open":
                k, d, orig, is_block = payload
                em.w(f"{A_OPEN[:-2]}C {orig} */{d['header']}\n")
                _emit_clauses_inner(em, fid, "closure" + d.get("label", str(k)), d["clauses"], indent + "            ")
                if is_block:
                    em.w(f"{indent}        {A_CLOSE}")
                else:
                    em.w(f"{indent}        {{{A_CLOSE} ")
            elif kind == "closure_close":
                em.w(f" {A_OPEN}}}{A_CLOSE}")
            elif kind == "loop":
                k, d = payload
                em.w(f"{A_OPEN}\n")
                _emit_clauses_inner(em, fid, f"loop{k}", d["clauses"], indent + "            ")
                em.w(f"{indent}        {A_CLOSE}")
            elif kind == "ghostraw":
                gi, g = payload
                em.w(f"{A_OPEN}\n")
                em.clause(f"{fid}::ghost{gi}", _indent_block(g["text"].rstrip("\n"), indent + "        "))
                em.w(f"{indent}        {A_CLOSE}")
        if i < len(body) and i not in skip:
            em.w(t.text)
        for kind, payload in ins_after.get(i, []):
            gi, g = payload
            if kind == "ghost":
                em.w(f"\n{indent}        {A_OPEN}\n")
                em.clause(f"{fid}::ghost{gi}", _indent_block(g["text"].rstrip("\n"), indent + "        "))
                em.w(f"{indent}        {A_CLOSE}")
            elif kind == "wrapclose":
                em.w(f"{A_OPEN};\n")
                em.clause(f"{fid}::ghost{gi}", _indent_block(g["text"].rstrip("\n"), indent + "        "))
                em.w(f"{indent}        {g['name']} }}{A_CLOSE}")
    return ""


def _emit_clauses_inner(em, fid, where, clauses, ind):
    order = ["requires", "invariant_except_break", "invariant", "ensures", "decreases"]
    for kind in order:
        cs = [c for c in clauses if c.kind == kind]
        if not cs:
            continue
        em.w(f"{ind}{kind}\n")
        for c in cs:
            c.tag = f"{fid}::{where}::{kind}#{c.name}"
            em.clause(c.tag, f"{ind}    {c.text},")


# ---------------------------------------------------------- faithfulness check

_A_RE = re.compile(r"/\*<A\*/.*?/\*A>\*/", re.S)
_AC_RE = re.compile(r"/\*<AC (.*?) \*/.*?/\*A>\*/", re.S)


def strip_annotations(s):
    s = _AC_RE.sub(lambda m: m.group(1), s)
    s = _A_RE.sub("", s)
    return s
