// GENERATED FILE — assembled by /verif/vt/build.py from /repo's working tree on every run.
// Text between /*<A*/ and /*A>*/ (and everything outside "copied from /repo" sections) is
// specification; everything else is the repository's code, token for token after the
// N-rules of unit/normalise.toml.
#![feature(allocator_api)]
#![feature(print_internals)]
#![allow(unused_imports, dead_code, unused_variables, unused_mut, non_camel_case_types)]
use vstd::prelude::*;
use vstd::std_specs::cmp::*;
use std::rc::Rc;
use std::io;
use std::io::BufRead;
use std::time::{Duration, Instant};
use std::iter::Peekable;
use std::slice::Iter;
use std::ops::Index;
use std::cmp::max;
use std::cmp::Ordering;
use std::cmp::{min, Reverse};
use std::collections::{BTreeMap, BTreeSet, HashMap, HashSet, VecDeque};
use std::borrow::Cow;
use std::fmt::{self, Debug, Display};
verus! {

// ======================= trusted shims (each item = one assumption id, DESIGN §4) =======================

// [A11] usize is 64 bit
global size_of usize == 8;

pub type Sym = NamedSymbol;

/// position of a symbol in the variable order (NamedSymbol compares by id; verified below on the real impls)
pub open spec fn key(s: Sym) -> int { s.id as int }

// [A2] Rc::as_ref returns the pointee
pub assume_specification<T: ?Sized, A: std::alloc::Allocator> [<std::rc::Rc<T, A> as std::convert::AsRef<T>>::as_ref] (rc: &std::rc::Rc<T, A>) -> (r: &T)
    ensures r == &**rc;

// [A3] derived PartialEq is structural equality
impl PartialEqSpecImpl for BDD {
    open spec fn obeys_eq_spec() -> bool { true }
    open spec fn eq_spec(&self, other: &BDD) -> bool { *self == *other }
}
impl PartialEqSpecImpl for SymbolicBDDToken {
    open spec fn obeys_eq_spec() -> bool { true }
    open spec fn eq_spec(&self, other: &SymbolicBDDToken) -> bool { *self == *other }
}
impl PartialEqSpecImpl for TruthTableEntry {
    open spec fn obeys_eq_spec() -> bool { true }
    open spec fn eq_spec(&self, other: &TruthTableEntry) -> bool { *self == *other }
}

// NamedSymbol: the real eq / cmp / partial_cmp bodies (copied below) are verified against these specs
impl PartialEqSpecImpl for NamedSymbol {
    open spec fn obeys_eq_spec() -> bool { true }
    open spec fn eq_spec(&self, other: &NamedSymbol) -> bool { *self == *other }
}
impl Eq for NamedSymbol {}
pub open spec fn ord_of(a: int, b: int) -> core::cmp::Ordering {
    if a < b { core::cmp::Ordering::Less } else if a == b { core::cmp::Ordering::Equal } else { core::cmp::Ordering::Greater }
}
impl OrdSpecImpl for NamedSymbol {
    open spec fn obeys_cmp_spec() -> bool { true }
    open spec fn cmp_spec(&self, other: &NamedSymbol) -> core::cmp::Ordering { ord_of(key(*self), key(*other)) }
}
impl PartialOrdSpecImpl for NamedSymbol {
    open spec fn obeys_partial_cmp_spec() -> bool { true }
    open spec fn partial_cmp_spec(&self, other: &NamedSymbol) -> Option<core::cmp::Ordering> { Some(ord_of(key(*self), key(*other))) }
}

// [A4] clone() of these types returns an equal value (derive(Clone) is taken off the derive list, N3)
pub assume_specification [<BDD as Clone>::clone] (b: &BDD) -> (r: BDD)
    ensures r == *b;
pub assume_specification [<NamedSymbol as Clone>::clone] (b: &NamedSymbol) -> (r: NamedSymbol)
    ensures r == *b;
pub assume_specification [<SymbolicBDD as Clone>::clone] (b: &SymbolicBDD) -> (r: SymbolicBDD)
    ensures r == *b;
pub assume_specification [<SymbolicBDDToken as Clone>::clone] (b: &SymbolicBDDToken) -> (r: SymbolicBDDToken)
    ensures r == *b;

// [A5] Rc<T> == Rc<T> compares pointees; Rc::clone yields an equal value
#[verifier::external_body]
pub proof fn axiom_rc_obeys()
    ensures <Rc<BDD> as PartialEqSpec>::obeys_eq_spec(),
{}
#[verifier::external_body]
pub broadcast proof fn axiom_rc_eqs(a: Rc<BDD>, b: Rc<BDD>)
    ensures #[trigger] <Rc<BDD> as PartialEqSpec>::eq_spec(&a, &b) == (*a == *b)
{}
#[verifier::external_body]
pub broadcast proof fn axiom_rc_cloned(a: Rc<BDD>, b: Rc<BDD>)
    ensures #[trigger] cloned::<Rc<BDD>>(a, b) ==> a == b
{}
#[verifier::external_body]
pub broadcast proof fn axiom_sym_cloned(a: Sym, b: Sym)
    ensures #[trigger] cloned::<Sym>(a, b) ==> a == b
{}

// Rc::ptr_eq: identical allocations hold equal values (the converse is NOT assumed)
pub assume_specification<T: ?Sized, A: std::alloc::Allocator> [std::rc::Rc::<T, A>::ptr_eq] (a: &std::rc::Rc<T, A>, b: &std::rc::Rc<T, A>) -> (r: bool)
    ensures r ==> a == b;

// [A6] std contracts
pub assume_specification<T: Clone> [<[T]>::to_vec] (s: &[T]) -> (r: Vec<T>)
    ensures r@.len() == s@.len(), forall|i: int| 0 <= i < s@.len() ==> cloned::<T>(s@[i], #[trigger] r@[i]),
            (forall|a: T, b: T| cloned::<T>(a, b) ==> a == b) ==> r@ == s@;

pub assume_specification<T: PartialEq> [<[T]>::contains] (s: &[T], x: &T) -> (r: bool)
    ensures T::obeys_eq_spec() ==> r == (exists|i: int| 0 <= i < s@.len() && #[trigger] s@[i].eq_spec(x));
pub assume_specification<T, U, D: FnOnce() -> U, F: FnOnce(T) -> U> [Option::<T>::map_or_else] (o: Option<T>, default: D, f: F) -> (r: U)
    requires match o { None => default.requires(()), Some(t) => f.requires((t,)) }
    ensures match o { None => default.ensures((), r), Some(t) => f.ensures((t,), r) };

/// p is a bijection on 0..n
pub open spec fn is_perm(p: Seq<int>, n: int) -> bool {
    p.len() == n && (forall|i: int| 0 <= i < n ==> 0 <= #[trigger] p[i] < n)
    && (forall|i: int, j: int| 0 <= i < n && 0 <= j < n && i != j ==> #[trigger] p[i] != #[trigger] p[j])
}
// <[T]>::sort_by: the result is a rearrangement of the input, and no element is Greater than a later one
pub assume_specification<T, F: FnMut(&T, &T) -> core::cmp::Ordering> [<[T]>::sort_by] (s: &mut [T], f: F)
    requires forall|a: &T, b: &T| f.requires((a, b))
    ensures
        exists|p: Seq<int>| is_perm(p, old(s)@.len() as int) && final(s)@.len() == old(s)@.len()
            && forall|i: int| 0 <= i < old(s)@.len() ==> #[trigger] final(s)@[i] == old(s)@[p[i]],
        final(s)@.to_multiset() == old(s)@.to_multiset(),
        forall|i: int, j: int| #![trigger final(s)@[i], final(s)@[j]] 0 <= i < j < final(s)@.len() ==>
            exists|o: core::cmp::Ordering| #[trigger] f.ensures((&final(s)@[i], &final(s)@[j]), o) && o != core::cmp::Ordering::Greater;

pub assume_specification<T, U, F: FnOnce(T) -> U> [Option::<T>::map_or] (o: Option<T>, default: U, f: F) -> (r: U)
    requires o is Some ==> f.requires((o->Some_0,))
    ensures match o { None => r == default, Some(t) => f.ensures((t,), r) };
pub assume_specification<T, E> [std::result::Result::<T, E>::unwrap_or] (r: std::result::Result<T, E>, d: T) -> (x: T)
    ensures x == (match r { Ok(t) => t, Err(_) => d });
pub assume_specification [i64::saturating_add] (a: i64, b: i64) -> (r: i64)
    ensures r as int == (if a + b > i64::MAX { i64::MAX as int } else if a + b < i64::MIN { i64::MIN as int } else { a + b });

// Iterator::any on a slice (N11): vstd's own specification only states `r ==> exists ..`; this shim states both directions
#[verifier::external_body]
pub fn slice_any<T, F: Fn(&T) -> bool>(s: &[T], f: F) -> (r: bool)
    requires forall|i: int| 0 <= i < s@.len() ==> f.requires((&#[trigger] s@[i],))
    ensures r ==> exists|i: int| 0 <= i < s@.len() && f.ensures((&#[trigger] s@[i],), true),
            !r ==> forall|i: int| 0 <= i < s@.len() ==> f.ensures((&#[trigger] s@[i],), false),
{ s.iter().any(f) }

// Iterator::filter_map over a slice iterator, collected (N17): f's results on the elements, in order, the None results dropped
pub open spec fn somes<U>(o: Seq<Option<U>>) -> Seq<U>
    decreases o.len()
{
    if o.len() == 0 { Seq::empty() } else {
        match o.last() { Some(u) => somes(o.drop_last()).push(u), None => somes(o.drop_last()) }
    }
}
#[verifier::external_body]
pub fn slice_filter_map<T, U, F: Fn(&T) -> Option<U>>(s: &[T], f: F) -> (r: Vec<U>)
    requires forall|i: int| 0 <= i < s@.len() ==> f.requires((&#[trigger] s@[i],))
    ensures exists|o: Seq<Option<U>>| o.len() == s@.len()
                && (forall|i: int| 0 <= i < s@.len() ==> f.ensures((&s@[i],), #[trigger] o[i])) && r@ == somes(o)
{ unimplemented!() }

/// the first occurrence of every element, in order of first occurrence
pub open spec fn unique_of(s: Seq<Sym>) -> Seq<Sym>
    decreases s.len()
{
    if s.len() == 0 { Seq::empty() } else {
        let r = unique_of(s.drop_last());
        if r.contains(s.last()) { r } else { r.push(s.last()) }
    }
}
// itertools::Itertools::unique + collect (N17): "filters out elements that have already been produced once during the iteration"
// (NamedSymbol's Eq and Hash both go by id; the unit's NamedSymbol is its id, N9)
#[verifier::external_body]
pub fn collect_unique(v: Vec<NamedSymbol>) -> (r: Vec<NamedSymbol>)
    ensures r@ == unique_of(v@)
{ unimplemented!() }

/// v is an element of vs, spelled with the trigger the std contract of <[T]>::contains produces
pub open spec fn sym_in(vs: Seq<Sym>, v: Sym) -> bool {
    exists|i: int| 0 <= i < vs.len() && #[trigger] PartialEqSpec::eq_spec(&vs[i], &v)
}
pub proof fn lemma_sym_in(vs: Seq<Sym>, v: Sym)
    ensures sym_in(vs, v) == vs.contains(v)
{
    if sym_in(vs, v) {
        let i = choose|i: int| 0 <= i < vs.len() && #[trigger] PartialEqSpec::eq_spec(&vs[i], &v);
        assert(vs[i] == v);
    }
    if vs.contains(v) {
        let i = choose|i: int| 0 <= i < vs.len() && vs[i] == v;
        assert(PartialEqSpec::eq_spec(&vs[i], &v));
    }
}

// [A8] Peekable<slice::Iter<T>> is a cursor over a sequence
#[verifier::external_type_specification]
#[verifier::external_body]
pub struct ExIoError(std::io::Error);
#[verifier::external_type_specification]
pub struct ExErrorKind(std::io::ErrorKind);
#[verifier::external_type_specification]
#[verifier::external_body]
#[verifier::reject_recursive_types(I)]
pub struct ExPeekable<I: Iterator>(Peekable<I>);

// [N13] the input stream parameter `&mut dyn BufRead` is re-spelled `&mut DynBufRead` (opaque): Verus cannot declare a dyn
// trait with supertraits; the stream is only forwarded to the (unverified) tokenizer
#[verifier::external_body]
pub struct DynBufRead { r: Box<dyn BufRead> }

// [N5] error construction: message text is dropped, the fact that an Err is returned is kept
#[verifier::external_body]
pub fn io_error_new<M>(k: std::io::ErrorKind, m: M) -> std::io::Error { unimplemented!() }
#[verifier::external_body]
pub fn opaque_string() -> String { unimplemented!() }

pub uninterp spec fn rest<I: Iterator>(p: Peekable<I>) -> Seq<I::Item>;

pub assume_specification<I: Iterator> [Peekable::<I>::peek] (p: &mut Peekable<I>) -> (r: Option<&I::Item>)
    ensures rest(*final(p)) == rest(*old(p)),
        match r { Some(t) => rest(*final(p)).len() > 0 && *t == rest(*final(p))[0], None => rest(*final(p)).len() == 0 };

pub assume_specification<I: Iterator> [<Peekable<I> as Iterator>::next] (p: &mut Peekable<I>) -> (r: Option<I::Item>)
    ensures
        match r { Some(t) => rest(*old(p)).len() > 0 && t == rest(*old(p))[0] && rest(*final(p)) == rest(*old(p)).subrange(1, rest(*old(p)).len() as int), None => rest(*old(p)).len() == 0 && rest(*final(p)) == rest(*old(p)) };

// [N12] `tokens.iter().peekable()` (a provided trait method Verus cannot give a specification) is re-spelled token_reader(&tokens)
#[verifier::external_body]
pub fn token_reader<'a>(v: &'a Vec<SymbolicBDDToken>) -> (r: Peekable<Iter<'a, SymbolicBDDToken>>)
    ensures toks(r) == v@
{ v.iter().peekable() }

/// the tokens still ahead of the reader
pub open spec fn toks(p: Peekable<Iter<'_, SymbolicBDDToken>>) -> Seq<SymbolicBDDToken> {
    Seq::new(rest(p).len(), |i: int| *rest(p)[i])
}

// [A15] the line formatter of src/bin/rsbdd.rs (generic over the symbol type; prints one table row) is not under contract:
// assumed to need only a leaf as its result argument (its `unreachable!()` arm)
#[verifier::external_body]
pub fn print_sized_line<B, D>(labels: &Vec<D>, widths: &B, result: &BDD)
    requires !(*result is Choice)
{ unimplemented!() }

// [A15] N14: `NAME.clone() + "*"` of the `-v` printer
#[verifier::external_body]
pub fn starred(s: &String) -> (r: String)
    ensures r@ == s@ + seq!['*']
{ unimplemented!() }

// [A15] N14: println!("{};", names.join(", ")) of the `-v` printer
#[verifier::external_body]
pub fn print_names_line(names: &Vec<String>)
{ unimplemented!() }

// [A15] N16: shims for what main() of src/bin/rsbdd.rs does outside the verifier's reach
// file names are opaque (N16: `PathBuf` re-spelled `CliPath` in the argument struct)
#[verifier::external_body]
pub struct CliPath { p: std::path::PathBuf }
#[verifier::external_type_specification]
#[verifier::external_body]
pub struct ExInstant(std::time::Instant);
pub assume_specification [std::time::Instant::now] () -> std::time::Instant;
pub assume_specification [std::time::Instant::elapsed] (i: &std::time::Instant) -> std::time::Duration;

#[verifier::external_body]
pub fn cli_args() -> (r: io::Result<Args>) { unimplemented!() }
#[verifier::external_body]
pub fn open_input(inline: &Option<String>, file: Option<CliPath>) -> (r: io::Result<DynBufRead>) { unimplemented!() }
#[verifier::external_body]
pub fn open_file(file: CliPath) -> (r: io::Result<DynBufRead>) { unimplemented!() }
#[verifier::external_body]
pub fn export_parse_tree(file: CliPath, f: &SymbolicBDD) -> (r: io::Result<()>) { unimplemented!() }
#[verifier::external_body]
pub fn export_dot(file: CliPath, b: &Rc<BDD>, filter: TruthTableEntry) -> (r: io::Result<()>) { unimplemented!() }
#[verifier::external_body]
pub fn default_diagram() -> (r: Rc<BDD>) ensures *r == BDD::False { unimplemented!() }
#[verifier::external_body]
pub fn print_performance_results(results: &Vec<Duration>) { unimplemented!() }
#[verifier::external_body]
pub fn plot_results(results: &Vec<Duration>) -> (r: io::Result<()>) { unimplemented!() }
#[verifier::external_body]
pub fn export_ordering(vars: &Vec<NamedSymbol>) { unimplemented!() }
/// the names of a list of symbols (NamedSymbol.name is dropped by N9: the names enter as an uninterpreted function of the symbols)
pub uninterp spec fn names_spec(vs: Seq<Sym>) -> Seq<Seq<char>>;
#[verifier::external_body]
pub fn symbol_names(vs: &Vec<NamedSymbol>) -> (r: Vec<String>)
    ensures r@.len() == vs@.len(), Seq::new(r@.len(), |i: int| r@[i]@) == names_spec(vs@)
{ unimplemented!() }
#[verifier::external_body]
pub fn star_label() -> (r: String) { unimplemented!() }
#[verifier::external_body]
pub fn column_widths(labels: &Vec<String>) -> (r: Vec<usize>) ensures r@.len() == labels@.len() { unimplemented!() }
#[verifier::external_body]
pub fn print_header(labels: &Vec<String>, widths: &Vec<usize>)
    requires widths@.len() == labels@.len()
{ unimplemented!() }

// [A14] output macros: effect on stdout/stderr not modelled
pub assume_specification [std::io::_eprint] (args: core::fmt::Arguments<'_>);
pub assume_specification [std::io::_print] (args: core::fmt::Arguments<'_>);

// [A7] the intern table `BDDEnv::nodes` (re-spelled InternTable by N4) is a monitor around a finite map satisfying table_inv:
// every read through borrow()/borrow_mut() may assume the invariant, every write must preserve it.  Any OTHER
// RefCell<FxHashMap<K, V>> (a table a change to the code might add) gets the honest weakest model: reads return anything.
pub open spec fn table_inv(m: Map<BDD, Rc<BDD>>) -> bool {
    m.dom().contains(BDD::True) && m.dom().contains(BDD::False)
    && forall|k: BDD| m.dom().contains(k) ==> *#[trigger] m[k] == k
}

#[verifier::external_body]
#[verifier::reject_recursive_types(K)]
#[verifier::reject_recursive_types(V)]
pub struct FxHashMap<K, V> { m: std::collections::HashMap<K, V> }

impl<K, V> FxHashMap<K, V> {
    pub uninterp spec fn view(&self) -> Map<K, V>;

    #[verifier::external_body]
    pub fn default() -> (r: Self) ensures r@ == Map::<K, V>::empty() { unimplemented!() }

    #[verifier::external_body]
    pub fn insert(&mut self, k: K, v: V) -> (r: Option<V>)
        ensures final(self)@ == old(self)@.insert(k, v)
    { unimplemented!() }
}

#[verifier::external_body]
#[verifier::reject_recursive_types(T)]
pub struct RefCell<T> { c: std::cell::RefCell<T> }

// handle on a table that is NOT the intern table: nothing is known about what it holds
#[verifier::external_body]
#[verifier::reject_recursive_types(K)]
#[verifier::reject_recursive_types(V)]
pub struct MapRef<'a, K, V> { r: &'a u8, p: core::marker::PhantomData<(K, V)> }

impl<K, V> RefCell<FxHashMap<K, V>> {
    #[verifier::external_body]
    pub fn new(m: FxHashMap<K, V>) -> (r: Self) { unimplemented!() }
    #[verifier::external_body]
    pub fn borrow(&self) -> (r: MapRef<'_, K, V>) { unimplemented!() }
    #[verifier::external_body]
    pub fn borrow_mut(&self) -> (r: MapRef<'_, K, V>) { unimplemented!() }
}

impl<'a, K, V> MapRef<'a, K, V> {
    #[verifier::external_body]
    pub fn get(&self, k: &K) -> (r: Option<&V>) { unimplemented!() }
    #[verifier::external_body]
    pub fn insert(&mut self, k: K, v: V) -> (r: Option<V>) { unimplemented!() }
    #[verifier::external_body]
    pub fn contains_key(&self, k: &K) -> (r: bool) { unimplemented!() }
    #[verifier::external_body]
    pub fn len(&self) -> (r: usize) { unimplemented!() }
}

#[verifier::external_body]
pub struct InternTable { c: std::cell::RefCell<std::collections::HashMap<BDD, Rc<BDD>>> }

// handle returned by InternTable::borrow()/borrow_mut(): every read may assume table_inv, every write must preserve it
#[verifier::external_body]
pub struct TableRef<'a> { r: &'a u8 }

impl InternTable {
    /// k has an entry in the table (entries are never removed: the shim offers no removal, and code outside the contracts that
    /// touches the table is rejected by the access scan)
    pub uninterp spec fn holds(&self, k: BDD) -> bool;

    #[verifier::external_body]
    pub fn new(m: FxHashMap<BDD, Rc<BDD>>) -> (r: Self)
        requires table_inv(m@)
    { unimplemented!() }

    #[verifier::external_body]
    pub fn borrow(&self) -> (r: TableRef<'_>)
        ensures forall|k: BDD| self.holds(k) ==> !#[trigger] r.absent(k)
    { unimplemented!() }
    #[verifier::external_body]
    pub fn borrow_mut(&self) -> (r: TableRef<'_>) { unimplemented!() }
}

impl<'a> TableRef<'a> {
    /// k has no entry in the table this handle borrows (fixed for the lifetime of the handle until it inserts)
    pub uninterp spec fn absent(&self, k: BDD) -> bool;

    #[verifier::external_body]
    pub fn get(&self, k: &BDD) -> (r: Option<&Rc<BDD>>)
        ensures
            match r { Some(v) => **v == *k, None => true },
            (*k == BDD::True || *k == BDD::False) ==> r is Some,
            r is None <==> self.absent(*k),
    { unimplemented!() }

    /// an entry is only ever added for a structure that has none (one shared node per structure, never replaced)
    #[verifier::external_body]
    pub fn insert(&mut self, k: BDD, v: Rc<BDD>) -> (r: Option<Rc<BDD>>)
        requires *v == k, old(self).absent(k)
    { unimplemented!() }

    #[verifier::external_body]
    pub fn len(&self) -> (r: usize) { unimplemented!() }
}
// ======================= end of trusted shims =======================
