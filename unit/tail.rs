} // verus!

// impls the verified text needs to compile but which are not under contract (listed in evidence)
impl Clone for BDD { fn clone(&self) -> Self { unimplemented!() } }
impl Clone for NamedSymbol { fn clone(&self) -> Self { unimplemented!() } }
impl Clone for SymbolicBDD { fn clone(&self) -> Self { unimplemented!() } }
impl Clone for SymbolicBDDToken { fn clone(&self) -> Self { unimplemented!() } }
impl Clone for ReferenceContents { fn clone(&self) -> Self { unimplemented!() } }
impl std::hash::Hash for NamedSymbol { fn hash<H: std::hash::Hasher>(&self, state: &mut H) { unimplemented!() } }
impl fmt::Display for NamedSymbol { fn fmt(&self, f: &mut fmt::Formatter<'_>) -> fmt::Result { unimplemented!() } }
impl<K, V> Default for RefCell<FxHashMap<K, V>> { fn default() -> Self { unimplemented!() } }
// (the crate's main is the one copied from src/bin/rsbdd.rs)
