pub type Asg = spec_fn(Sym) -> bool;

/// truth value of diagram b under assignment a
pub open spec fn eval(b: BDD, a: Asg) -> bool
    decreases b
{
    match b {
        BDD::False => false,
        BDD::True => true,
        BDD::Choice(t, v, f) => if a(v) { eval(*t, a) } else { eval(*f, a) },
    }
}

pub open spec fn size(b: BDD) -> nat
    decreases b
{
    match b {
        BDD::False => 1,
        BDD::True => 1,
        BDD::Choice(t, v, f) => 1 + size(*t) + size(*f),
    }
}

/// ordered (every tested variable >= lo, strictly increasing along each path) and reduced (t != f at every node)
pub open spec fn robdd(b: BDD, lo: int) -> bool
    decreases b
{
    match b {
        BDD::False => true,
        BDD::True => true,
        BDD::Choice(t, v, f) => lo <= key(v) && robdd(*t, key(v) + 1) && robdd(*f, key(v) + 1) && *t != *f,
    }
}

pub open spec fn upd(a: Asg, v: Sym, x: bool) -> Asg {
    |w: Sym| if w == v { x } else { a(w) }
}

pub open spec fn sem_eq(x: BDD, y: BDD) -> bool {
    forall|a: Asg| eval(x, a) == eval(y, a)
}

pub proof fn lemma_weaken(b: BDD, lo: int, lo2: int)
    requires robdd(b, lo), lo2 <= lo
    ensures robdd(b, lo2)
{}

pub proof fn lemma_indep(b: BDD, lo: int, a: Asg, v: Sym, x: bool)
    requires robdd(b, lo), key(v) < lo
    ensures eval(b, upd(a, v, x)) == eval(b, a)
    decreases b
{
    if b is Choice {
        let t = *b->0; let f = *b->2;
        lemma_indep(t, key(b->1) + 1, a, v, x);
        lemma_indep(f, key(b->1) + 1, a, v, x);
    }
}

pub proof fn lemma_canon(x: BDD, y: BDD, lo: int)
    requires robdd(x, lo), robdd(y, lo), sem_eq(x, y)
    ensures x == y
    decreases size(x) + size(y), 1int
{
    if x is Choice && y is Choice {
        let t1 = *x->0; let v1 = x->1; let f1 = *x->2;
        let t2 = *y->0; let v2 = y->1; let f2 = *y->2;
        if v1 == v2 {
            assert forall|a: Asg| eval(t1, a) == eval(t2, a) by {
                lemma_indep(t1, key(v1) + 1, a, v1, true);
                lemma_indep(t2, key(v1) + 1, a, v1, true);
                assert(eval(x, upd(a, v1, true)) == eval(y, upd(a, v1, true)));
            }
            assert forall|a: Asg| eval(f1, a) == eval(f2, a) by {
                lemma_indep(f1, key(v1) + 1, a, v1, false);
                lemma_indep(f2, key(v1) + 1, a, v1, false);
                assert(eval(x, upd(a, v1, false)) == eval(y, upd(a, v1, false)));
            }
            lemma_canon(t1, t2, key(v1) + 1);
            lemma_canon(f1, f2, key(v1) + 1);
        } else if key(v1) < key(v2) {
            lemma_top_redundant(x, y);
        } else {
            assert(sem_eq(y, x));
            lemma_top_redundant(y, x);
        }
    } else if x is Choice {
        lemma_top_redundant(x, y);
    } else if y is Choice {
        assert(sem_eq(y, x));
        lemma_top_redundant(y, x);
    } else {
        let a0: Asg = |w: Sym| true;
        assert(eval(x, a0) == eval(y, a0));
    }
}

// x = Choice(t,v,f) reduced, y does not depend on v  ==> contradiction
pub proof fn lemma_top_redundant(x: BDD, y: BDD)
    requires
        x is Choice, robdd(x, key(x->1)), sem_eq(x, y),
        robdd(y, key(x->1) + 1),
    ensures false
    decreases size(x) + size(y), 0int
{
    let t = *x->0; let v = x->1; let f = *x->2;
    assert forall|a: Asg| eval(t, a) == eval(f, a) by {
        lemma_indep(t, key(v) + 1, a, v, true);
        lemma_indep(f, key(v) + 1, a, v, false);
        lemma_indep(y, key(v) + 1, a, v, true);
        lemma_indep(y, key(v) + 1, a, v, false);
        assert(eval(x, upd(a, v, true)) == eval(y, upd(a, v, true)));
        assert(eval(x, upd(a, v, false)) == eval(y, upd(a, v, false)));
    }
    assert(sem_eq(t, f));
    lemma_canon(t, f, key(v) + 1);
}

// ---------------------------------------------------------------- counting (C05)

/// number of diagrams in bs that are true under a
pub open spec fn count(bs: Seq<Rc<BDD>>, a: Asg) -> int
    decreases bs.len()
{
    if bs.len() == 0 { 0 } else { (if eval(*bs[0], a) { 1int } else { 0int }) + count(bs.subrange(1, bs.len() as int), a) }
}

pub open spec fn all_robdd(bs: Seq<Rc<BDD>>, lo: int) -> bool {
    forall|i: int| 0 <= i < bs.len() ==> robdd(*#[trigger] bs[i], lo)
}

pub proof fn lemma_count_bounds(bs: Seq<Rc<BDD>>, a: Asg)
    ensures 0 <= count(bs, a) <= bs.len()
    decreases bs.len()
{
    if bs.len() > 0 { lemma_count_bounds(bs.subrange(1, bs.len() as int), a); }
}

// [A16] a slice of Rc pointers occupies at most isize::MAX bytes (std guarantee for every allocation)
#[verifier::external_body]
pub proof fn axiom_slice_len(s: &[Rc<BDD>])
    ensures s@.len() <= 0x0fff_ffff_ffff_ffff
{}

#[verifier::external_body]
pub proof fn axiom_vec_len(s: &Vec<Rc<BDD>>)
    ensures s@.len() <= 0x0fff_ffff_ffff_ffff
{}

/// the comparator argument of cmp_count_compare behaves as "at least k of l" / "at most k of l"
pub open spec fn cmp_is_aln<F: Fn(&BDDEnv, &[Rc<BDD>], i64) -> Rc<BDD>>(cmp: F) -> bool {
    forall|e: &BDDEnv, l: &[Rc<BDD>], k: i64, res: Rc<BDD>| #[trigger] cmp.ensures((e, l, k), res)
        ==> forall|s: Asg| #[trigger] eval(*res, s) == (count(l@, s) >= k)
}
pub open spec fn cmp_is_amn<F: Fn(&BDDEnv, &[Rc<BDD>], i64) -> Rc<BDD>>(cmp: F) -> bool {
    forall|e: &BDDEnv, l: &[Rc<BDD>], k: i64, res: Rc<BDD>| #[trigger] cmp.ensures((e, l, k), res)
        ==> forall|s: Asg| #[trigger] eval(*res, s) == (count(l@, s) <= k)
}
pub open spec fn cmp_keeps_robdd<F: Fn(&BDDEnv, &[Rc<BDD>], i64) -> Rc<BDD>>(cmp: F) -> bool {
    forall|e: &BDDEnv, l: &[Rc<BDD>], k: i64, res: Rc<BDD>| #[trigger] cmp.ensures((e, l, k), res)
        ==> forall|lo: int| all_robdd(l@, lo) ==> #[trigger] robdd(*res, lo)
}

// ---------------------------------------------------------------- quantifiers (C04)

/// exists over the list vs, outermost variable first (the recursion of BDDEnv::exists)
pub open spec fn exq(vs: Seq<Sym>, b: BDD, a: Asg) -> bool
    decreases vs.len()
{
    if vs.len() == 0 { eval(b, a) } else {
        exq(vs.subrange(1, vs.len() as int), b, upd(a, vs[0], true))
        || exq(vs.subrange(1, vs.len() as int), b, upd(a, vs[0], false))
    }
}

pub open spec fn allq(vs: Seq<Sym>, b: BDD, a: Asg) -> bool
    decreases vs.len()
{
    if vs.len() == 0 { eval(b, a) } else {
        allq(vs.subrange(1, vs.len() as int), b, upd(a, vs[0], true))
        && allq(vs.subrange(1, vs.len() as int), b, upd(a, vs[0], false))
    }
}

/// two assignments agree on every variable outside vs
pub open spec fn agree_outside(a: Asg, t: Asg, vs: Seq<Sym>) -> bool {
    forall|w: Sym| !vs.contains(w) ==> #[trigger] t(w) == a(w)
}

pub proof fn lemma_exq_dual(vs: Seq<Sym>, b: BDD, nb: BDD, a: Asg)
    requires forall|t: Asg| #[trigger] eval(nb, t) == !eval(b, t)
    ensures exq(vs, nb, a) == !allq(vs, b, a)
    decreases vs.len()
{
    if vs.len() > 0 {
        lemma_exq_dual(vs.subrange(1, vs.len() as int), b, nb, upd(a, vs[0], true));
        lemma_exq_dual(vs.subrange(1, vs.len() as int), b, nb, upd(a, vs[0], false));
    }
}

// ---------------------------------------------------------------- validity / satisfiability corollaries of canonicity (C02)

pub open spec fn valid(b: BDD) -> bool { forall|a: Asg| eval(b, a) }
pub open spec fn unsat(b: BDD) -> bool { forall|a: Asg| !eval(b, a) }

/// a valid ROBDD is literally the true leaf, an unsatisfiable one literally the false leaf
pub proof fn lemma_valid_true(b: BDD, lo: int)
    requires robdd(b, lo)
    ensures (b == BDD::True) == valid(b), (b == BDD::False) == unsat(b)
{
    if valid(b) { assert(sem_eq(b, BDD::True)); lemma_canon(b, BDD::True, lo); }
    if unsat(b) { assert(sem_eq(b, BDD::False)); lemma_canon(b, BDD::False, lo); }
    let a0: Asg = |w: Sym| true;
    if b == BDD::True { assert(eval(b, a0)); }
    if b == BDD::False { assert(!eval(b, a0)); }
}

/// a ROBDD other than the false leaf has a satisfying assignment (and dually)
pub proof fn lemma_nonfalse_sat(b: BDD, lo: int) -> (a: Asg)
    requires robdd(b, lo), b != BDD::False
    ensures eval(b, a)
{
    lemma_valid_true(b, lo);
    choose|a: Asg| eval(b, a)
}

/// variable w is tested somewhere in b
pub open spec fn occurs(b: BDD, w: Sym) -> bool
    decreases b
{
    match b {
        BDD::False => false,
        BDD::True => false,
        BDD::Choice(t, v, f) => v == w || occurs(*t, w) || occurs(*f, w),
    }
}

/// b is a single path to the true leaf: a conjunction of literals
pub open spec fn cube(b: BDD) -> bool
    decreases b
{
    match b {
        BDD::False => false,
        BDD::True => true,
        BDD::Choice(t, v, f) => (*f == BDD::False && cube(*t)) || (*t == BDD::False && cube(*f)),
    }
}

/// the ROBDD of (lhs and v), v below every variable of lhs, is the node (lhs, v, False)
pub proof fn lemma_and_var_cube(r: BDD, lhs: BDD, v: Sym)
    requires robdd(r, key(v)), robdd(lhs, key(v) + 1), lhs != BDD::False,
             forall|s: Asg| #[trigger] eval(r, s) == (eval(lhs, s) && s(v))
    ensures r is Choice, r->1 == v, *r->0 == lhs, *r->2 == BDD::False
{
    let s0 = lemma_nonfalse_sat(lhs, key(v) + 1);
    let s1 = upd(s0, v, true);
    let s2 = upd(s0, v, false);
    lemma_indep(lhs, key(v) + 1, s0, v, true);
    assert(eval(r, s1));
    assert(!eval(r, s2));
    assert(r is Choice);
    let rt = *r->0; let rv = r->1; let rf = *r->2;
    if rv != v {
        lemma_indep(r, key(v) + 1, s0, v, true);
        lemma_indep(r, key(v) + 1, s0, v, false);
        assert(false);
    }
    assert forall|s: Asg| eval(rt, s) == eval(lhs, s) by {
        lemma_indep(rt, key(v) + 1, s, v, true);
        lemma_indep(lhs, key(v) + 1, s, v, true);
        assert(eval(r, upd(s, v, true)) == eval(rt, upd(s, v, true)));
    }
    assert(sem_eq(rt, lhs));
    lemma_canon(rt, lhs, key(v) + 1);
    assert forall|s: Asg| eval(rf, s) == eval(BDD::False, s) by {
        lemma_indep(rf, key(v) + 1, s, v, false);
        assert(eval(r, upd(s, v, false)) == eval(rf, upd(s, v, false)));
    }
    assert(sem_eq(rf, BDD::False));
    lemma_canon(rf, BDD::False, key(v) + 1);
}

/// the ROBDD of (not v and rhs) is the node (False, v, rhs)
pub proof fn lemma_and_nvar_cube(r: BDD, rhs: BDD, v: Sym)
    requires robdd(r, key(v)), robdd(rhs, key(v) + 1), rhs != BDD::False,
             forall|s: Asg| #[trigger] eval(r, s) == (!s(v) && eval(rhs, s))
    ensures r is Choice, r->1 == v, *r->0 == BDD::False, *r->2 == rhs
{
    let s0 = lemma_nonfalse_sat(rhs, key(v) + 1);
    let s1 = upd(s0, v, true);
    let s2 = upd(s0, v, false);
    lemma_indep(rhs, key(v) + 1, s0, v, false);
    assert(!eval(r, s1));
    assert(eval(r, s2));
    assert(r is Choice);
    let rt = *r->0; let rv = r->1; let rf = *r->2;
    if rv != v {
        lemma_indep(r, key(v) + 1, s0, v, true);
        lemma_indep(r, key(v) + 1, s0, v, false);
        assert(false);
    }
    assert forall|s: Asg| eval(rf, s) == eval(rhs, s) by {
        lemma_indep(rf, key(v) + 1, s, v, false);
        lemma_indep(rhs, key(v) + 1, s, v, false);
        assert(eval(r, upd(s, v, false)) == eval(rf, upd(s, v, false)));
    }
    assert(sem_eq(rf, rhs));
    lemma_canon(rf, rhs, key(v) + 1);
    assert forall|s: Asg| eval(rt, s) == eval(BDD::False, s) by {
        lemma_indep(rt, key(v) + 1, s, v, true);
        assert(eval(r, upd(s, v, true)) == eval(rt, upd(s, v, true)));
    }
    assert(sem_eq(rt, BDD::False));
    lemma_canon(rt, BDD::False, key(v) + 1);
}

/// satisfiability of a node from satisfiability of a child (children do not test the node's variable)
pub proof fn lemma_sat_child(b: BDD, lo: int)
    requires b is Choice, robdd(b, lo)
    ensures unsat(b) == (unsat(*b->0) && unsat(*b->2))
{
    let t = *b->0; let v = b->1; let f = *b->2;
    if unsat(t) && unsat(f) {
        assert forall|a: Asg| !eval(b, a) by { assert(!eval(t, a)); assert(!eval(f, a)); }
    }
    if !unsat(t) {
        let s = choose|s: Asg| eval(t, s);
        lemma_indep(t, key(v) + 1, s, v, true);
        assert(eval(b, upd(s, v, true)));
    }
    if !unsat(f) {
        let s = choose|s: Asg| eval(f, s);
        lemma_indep(f, key(v) + 1, s, v, false);
        assert(eval(b, upd(s, v, false)));
    }
}

// ---------------------------------------------------------------- fixed-point iteration (C06)

/// tr is the sequence a, t(a), t(t(a)), .. up to r, every step a real call of t that changed the value
pub open spec fn is_fp_trace<F: Fn(Rc<BDD>) -> Rc<BDD>>(t: F, a: Rc<BDD>, tr: Seq<Rc<BDD>>, r: Rc<BDD>) -> bool {
    tr.len() > 0 && tr[0] == a && tr[tr.len() - 1] == r
    && forall|i: int| 0 <= i < tr.len() - 1 ==> t.ensures((#[trigger] tr[i],), tr[i + 1]) && *tr[i + 1] != *tr[i]
}

pub open spec fn use_inv(inv: spec_fn(Rc<BDD>, Rc<BDD>) -> bool) -> bool { true }

/// like is_fp_trace, with the closure's postcondition abstracted to any relation inv it implies
pub open spec fn inv_trace(inv: spec_fn(Rc<BDD>, Rc<BDD>) -> bool, a: Rc<BDD>, tr: Seq<Rc<BDD>>, r: Rc<BDD>) -> bool {
    tr.len() > 0 && tr[0] == a && tr[tr.len() - 1] == r
    && forall|k: int| 0 <= k < tr.len() - 1 ==> inv(#[trigger] tr[k], tr[k + 1]) && *tr[k + 1] != *tr[k]
}

// ================================================================ formula language (C01, C05, C06, C09)

pub type Rho = Map<Sym, BDD>;

/// number of nodes of a syntax tree (termination measure of the evaluator)
pub open spec fn ast_size(f: SymbolicBDD) -> nat
    decreases f, 0nat, 0nat
{
    match f {
        SymbolicBDD::False | SymbolicBDD::True | SymbolicBDD::Var(_) | SymbolicBDD::Subtree(_) | SymbolicBDD::Reference(_) => 1,
        SymbolicBDD::Not(b) => 1 + ast_size(*b),
        SymbolicBDD::Quantifier(_, _, b) => 1 + ast_size(*b),
        SymbolicBDD::CountableConst(_, bs, _) => 1 + list_size(bs@, bs@.len()),
        SymbolicBDD::CountableVariable(_, l, r) => 1 + list_size(l@, l@.len()) + list_size(r@, r@.len()),
        SymbolicBDD::FixedPoint(_, _, t) => 1 + ast_size(*t),
        SymbolicBDD::Ite(c, t, e) => 1 + ast_size(*c) + ast_size(*t) + ast_size(*e),
        SymbolicBDD::BinaryOp(_, l, r) => 1 + ast_size(*l) + ast_size(*r),
    }
}
/// total size of the first k elements of bs
pub open spec fn list_size(bs: Seq<SymbolicBDD>, k: nat) -> nat
    decreases bs, 1nat, k
{
    if k == 0 || k > bs.len() { 0 } else { ast_size(bs[k - 1]) + list_size(bs, (k - 1) as nat) }
}

/// no `{name}` reference nodes
pub open spec fn ref_free(f: SymbolicBDD) -> bool
    decreases f
{
    match f {
        SymbolicBDD::Reference(_) => false,
        SymbolicBDD::False | SymbolicBDD::True | SymbolicBDD::Var(_) | SymbolicBDD::Subtree(_) => true,
        SymbolicBDD::Not(b) => ref_free(*b),
        SymbolicBDD::Quantifier(_, _, b) => ref_free(*b),
        SymbolicBDD::CountableConst(_, bs, _) => forall|i: int| 0 <= i < bs@.len() ==> ref_free(#[trigger] bs@[i]),
        SymbolicBDD::CountableVariable(_, l, r) => (forall|i: int| 0 <= i < l@.len() ==> ref_free(#[trigger] l@[i]))
            && (forall|i: int| 0 <= i < r@.len() ==> ref_free(#[trigger] r@[i])),
        SymbolicBDD::FixedPoint(_, _, t) => ref_free(*t),
        SymbolicBDD::Ite(c, t, e) => ref_free(*c) && ref_free(*t) && ref_free(*e),
        SymbolicBDD::BinaryOp(_, l, r) => ref_free(*l) && ref_free(*r),
    }
}

/// every embedded diagram (Subtree node) is an ROBDD; `plain` additionally: there is none
pub open spec fn subtrees_ok(f: SymbolicBDD, plain: bool) -> bool
    decreases f
{
    match f {
        SymbolicBDD::Subtree(t) => !plain && robdd(*t, 0),
        SymbolicBDD::False | SymbolicBDD::True | SymbolicBDD::Var(_) | SymbolicBDD::Reference(_) => true,
        SymbolicBDD::Not(b) => subtrees_ok(*b, plain),
        SymbolicBDD::Quantifier(_, _, b) => subtrees_ok(*b, plain),
        SymbolicBDD::CountableConst(_, bs, _) => forall|i: int| 0 <= i < bs@.len() ==> subtrees_ok(#[trigger] bs@[i], plain),
        SymbolicBDD::CountableVariable(_, l, r) => (forall|i: int| 0 <= i < l@.len() ==> subtrees_ok(#[trigger] l@[i], plain))
            && (forall|i: int| 0 <= i < r@.len() ==> subtrees_ok(#[trigger] r@[i], plain)),
        SymbolicBDD::FixedPoint(_, _, t) => subtrees_ok(*t, plain),
        SymbolicBDD::Ite(c, t, e) => subtrees_ok(*c, plain) && subtrees_ok(*t, plain) && subtrees_ok(*e, plain),
        SymbolicBDD::BinaryOp(_, l, r) => subtrees_ok(*l, plain) && subtrees_ok(*r, plain),
    }
}

/// v has an occurrence in f that is not enclosed by a quantifier / fixed-point binder of v   (C09)
pub open spec fn free_in(f: SymbolicBDD, v: Sym) -> bool
    decreases f
{
    match f {
        SymbolicBDD::Var(w) => w == v,
        SymbolicBDD::False | SymbolicBDD::True | SymbolicBDD::Subtree(_) => false,
        // an undefined `{name}` reference is treated as possibly mentioning any variable (no definition is ever
        // installed: assumption A17)
        SymbolicBDD::Reference(_) => true,
        SymbolicBDD::Not(b) => free_in(*b, v),
        SymbolicBDD::Quantifier(_, vs, b) => !sym_in(vs@, v) && free_in(*b, v),
        SymbolicBDD::CountableConst(_, bs, _) => exists|i: int| 0 <= i < bs@.len() && free_in(#[trigger] bs@[i], v),
        SymbolicBDD::CountableVariable(_, l, r) => (exists|i: int| 0 <= i < l@.len() && free_in(#[trigger] l@[i], v))
            || (exists|i: int| 0 <= i < r@.len() && free_in(#[trigger] r@[i], v)),
        SymbolicBDD::FixedPoint(x, _, t) => x != v && free_in(*t, v),
        SymbolicBDD::Ite(c, t, e) => free_in(*c, v) || free_in(*t, v) || free_in(*e, v),
        SymbolicBDD::BinaryOp(_, l, r) => free_in(*l, v) || free_in(*r, v),
    }
}

/// like free_in, but an (always undefined, A17) `{name}` reference mentions no variable: v has a free occurrence AS A VARIABLE LEAF.
/// This is what the evaluated diagram can depend on; free_in additionally answers true below a reference, as var_is_free does.
pub open spec fn fv(f: SymbolicBDD, v: Sym) -> bool
    decreases f
{
    match f {
        SymbolicBDD::Var(w) => w == v,
        SymbolicBDD::False | SymbolicBDD::True | SymbolicBDD::Subtree(_) => false,
        // an undefined `{name}` reference is treated as possibly mentioning any variable (no definition is ever
        // installed: assumption A17)
        SymbolicBDD::Reference(_) => false,
        SymbolicBDD::Not(b) => fv(*b, v),
        SymbolicBDD::Quantifier(_, vs, b) => !sym_in(vs@, v) && fv(*b, v),
        SymbolicBDD::CountableConst(_, bs, _) => exists|i: int| 0 <= i < bs@.len() && fv(#[trigger] bs@[i], v),
        SymbolicBDD::CountableVariable(_, l, r) => (exists|i: int| 0 <= i < l@.len() && fv(#[trigger] l@[i], v))
            || (exists|i: int| 0 <= i < r@.len() && fv(#[trigger] r@[i], v)),
        SymbolicBDD::FixedPoint(x, _, t) => x != v && fv(*t, v),
        SymbolicBDD::Ite(c, t, e) => fv(*c, v) || fv(*t, v) || fv(*e, v),
        SymbolicBDD::BinaryOp(_, l, r) => fv(*l, v) || fv(*r, v),
    }
}

pub proof fn lemma_fv_free(f: SymbolicBDD, v: Sym)
    requires fv(f, v)
    ensures free_in(f, v)
    decreases f
{
    match f {
        SymbolicBDD::Not(b) => { lemma_fv_free(*b, v); }
        SymbolicBDD::Quantifier(_, vs, b) => { lemma_fv_free(*b, v); }
        SymbolicBDD::CountableConst(_, bs, _) => {
            let i = choose|i: int| 0 <= i < bs@.len() && fv(#[trigger] bs@[i], v);
            lemma_fv_free(bs@[i], v);
        }
        SymbolicBDD::CountableVariable(_, l, r) => {
            if exists|i: int| 0 <= i < l@.len() && fv(#[trigger] l@[i], v) {
                let i = choose|i: int| 0 <= i < l@.len() && fv(#[trigger] l@[i], v);
                lemma_fv_free(l@[i], v);
            } else {
                let i = choose|i: int| 0 <= i < r@.len() && fv(#[trigger] r@[i], v);
                lemma_fv_free(r@[i], v);
            }
        }
        SymbolicBDD::FixedPoint(x, _, t) => { lemma_fv_free(*t, v); }
        SymbolicBDD::Ite(c, t, e) => {
            if fv(*c, v) { lemma_fv_free(*c, v); } else if fv(*t, v) { lemma_fv_free(*t, v); } else { lemma_fv_free(*e, v); }
        }
        SymbolicBDD::BinaryOp(_, l, r) => {
            if fv(*l, v) { lemma_fv_free(*l, v); } else { lemma_fv_free(*r, v); }
        }
        _ => {}
    }
}

/// g is f with every free occurrence of the name x replaced by rep; an inner quantifier list containing x
/// or an inner fixed point on x shadows it (C06: "X is lexically scoped")
pub open spec fn is_subst(f: SymbolicBDD, x: Sym, rep: SymbolicBDD, g: SymbolicBDD) -> bool
    decreases f
{
    match f {
        SymbolicBDD::Var(v) => if v == x { g == rep } else { g == f },
        SymbolicBDD::False | SymbolicBDD::True | SymbolicBDD::Subtree(_) | SymbolicBDD::Reference(_) => g == f,
        SymbolicBDD::Not(b) => g matches SymbolicBDD::Not(b2) && is_subst(*b, x, rep, *b2),
        SymbolicBDD::Quantifier(q, vs, b) => if sym_in(vs@, x) { g == f } else {
            g matches SymbolicBDD::Quantifier(q2, vs2, b2) && q2 == q && vs2@ == vs@ && is_subst(*b, x, rep, *b2) },
        SymbolicBDD::FixedPoint(v, i, t) => if v == x { g == f } else {
            g matches SymbolicBDD::FixedPoint(v2, i2, t2) && v2 == v && i2 == i && is_subst(*t, x, rep, *t2) },
        SymbolicBDD::Ite(a, b, c) => g matches SymbolicBDD::Ite(a2, b2, c2)
            && is_subst(*a, x, rep, *a2) && is_subst(*b, x, rep, *b2) && is_subst(*c, x, rep, *c2),
        SymbolicBDD::BinaryOp(op, l, r) => g matches SymbolicBDD::BinaryOp(op2, l2, r2) && op2 == op
            && is_subst(*l, x, rep, *l2) && is_subst(*r, x, rep, *r2),
        SymbolicBDD::CountableConst(op, bs, n) => g matches SymbolicBDD::CountableConst(op2, cs, n2) && op2 == op && n2 == n
            && cs@.len() == bs@.len() && forall|i: int| 0 <= i < bs@.len() ==> is_subst(#[trigger] bs@[i], x, rep, cs@[i]),
        SymbolicBDD::CountableVariable(op, l, r) => g matches SymbolicBDD::CountableVariable(op2, l2, r2) && op2 == op
            && l2@.len() == l@.len() && (forall|i: int| 0 <= i < l@.len() ==> is_subst(#[trigger] l@[i], x, rep, l2@[i]))
            && r2@.len() == r@.len() && (forall|i: int| 0 <= i < r@.len() ==> is_subst(#[trigger] r@[i], x, rep, r2@[i])),
    }
}

// ---------------------------------------------------------------- documented meaning of a formula (README "Syntax")

pub open spec fn cmp_op(op: CountableOperator, c: int, n: int) -> bool {
    match op {
        CountableOperator::AtMost => c <= n,
        CountableOperator::LessThan => c < n,
        CountableOperator::AtLeast => c >= n,
        CountableOperator::MoreThan => c > n,
        CountableOperator::Exactly => c == n,
    }
}

pub open spec fn bin_op(op: BinaryOperator, l: bool, r: bool) -> bool {
    match op {
        BinaryOperator::And => l && r,
        BinaryOperator::Or => l || r,
        BinaryOperator::Xor => l != r,
        BinaryOperator::Nor => !(l || r),
        BinaryOperator::Nand => !(l && r),
        BinaryOperator::Implies => l ==> r,
        BinaryOperator::ImpliesInv => r ==> l,
        BinaryOperator::Iff => l == r,
    }
}

pub open spec fn leaf(b: bool) -> BDD { if b { BDD::True } else { BDD::False } }

/// truth value of formula f under assignment a; rho gives the current value (a diagram) of the fixed-point
/// names in scope.  Quantified names and inner fixed-point names shadow rho.
pub open spec fn sem(f: SymbolicBDD, a: Asg, rho: Rho) -> bool
    decreases f, 0nat, 0nat
{
    match f {
        SymbolicBDD::False => false,
        SymbolicBDD::True => true,
        SymbolicBDD::Var(v) => if rho.dom().contains(v) { eval(rho[v], a) } else { a(v) },
        SymbolicBDD::Subtree(t) => eval(*t, a),
        SymbolicBDD::Reference(_) => false,
        SymbolicBDD::Not(b) => !sem(*b, a, rho),
        SymbolicBDD::Quantifier(q, vs, b) => semq(q, vs@, *b, a, rho.remove_keys(vs@.to_set())),
        SymbolicBDD::CountableConst(op, bs, n) => cmp_op(op, scount(bs@, 0, a, rho), n as int),
        SymbolicBDD::CountableVariable(op, l, r) => cmp_op(op, scount(l@, 0, a, rho), scount(r@, 0, a, rho)),
        SymbolicBDD::Ite(c, t, e) => if sem(*c, a, rho) { sem(*t, a, rho) } else { sem(*e, a, rho) },
        SymbolicBDD::BinaryOp(op, l, r) => bin_op(op, sem(*l, a, rho), sem(*r, a, rho)),
        SymbolicBDD::FixedPoint(x, i, t) => fp_sem(x, i, *t, rho, a),
    }
}

/// value of `lfp/gfp X # T`: that of the first stable iterate (which is unique); false if the iteration does not
/// converge (evaluation diverges then)
pub open spec fn fp_sem(x: Sym, i: bool, t: SymbolicBDD, rho: Rho, a: Asg) -> bool
    decreases t, 4nat, 0nat
{
    exists|y: BDD| fp_result(x, i, t, rho, y) && #[trigger] eval(y, a)
}

/// trigger helper (quantifiers inside the mutually recursive group must not be triggered on members of the group)
pub open spec fn tr_tag(tr: Seq<BDD>) -> bool { true }

/// exists / forall over the list vs, outermost variable first
pub open spec fn semq(q: QuantifierType, vs: Seq<Sym>, b: SymbolicBDD, a: Asg, rho: Rho) -> bool
    decreases b, 1nat, vs.len()
{
    if vs.len() == 0 { sem(b, a, rho) } else {
        let r1 = semq(q, vs.subrange(1, vs.len() as int), b, upd(a, vs[0], true), rho);
        let r2 = semq(q, vs.subrange(1, vs.len() as int), b, upd(a, vs[0], false), rho);
        if q == QuantifierType::Exists { r1 || r2 } else { r1 && r2 }
    }
}

/// number of formulas among bs[i..] that are true
pub open spec fn scount(bs: Seq<SymbolicBDD>, i: nat, a: Asg, rho: Rho) -> int
    decreases bs, 1nat, bs.len() - i
{
    if i >= bs.len() { 0 } else { (if sem(bs[i as int], a, rho) { 1int } else { 0int }) + scount(bs, i + 1, a, rho) }
}

/// q is the ROBDD of  T[X := p]
pub open spec fn fp_step(x: Sym, t: SymbolicBDD, rho: Rho, p: BDD, q: BDD) -> bool
    decreases t, 1nat, 0nat
{
    robdd(q, 0) && forall|a: Asg| #[trigger] eval(q, a) == sem(t, a, rho.insert(x, p))
}

/// tr = init, T[X:=init], T[X:=T[X:=init]], ..  every step changing the value
pub open spec fn fp_trace(x: Sym, i: bool, t: SymbolicBDD, rho: Rho, tr: Seq<BDD>) -> bool
    decreases t, 2nat, 0nat
{
    tr.len() > 0 && tr[0] == leaf(i)
    && forall|k: int| 0 <= k < tr.len() - 1 ==> fp_step(x, t, rho, #[trigger] tr[k], tr[k + 1]) && tr[k + 1] != tr[k]
}

/// y is the first iterate that T maps to itself
pub open spec fn fp_result(x: Sym, i: bool, t: SymbolicBDD, rho: Rho, y: BDD) -> bool
    decreases t, 3nat, 0nat
{
    exists|tr: Seq<BDD>| #[trigger] tr_tag(tr) && fp_trace(x, i, t, rho, tr) && tr[tr.len() - 1] == y && fp_step(x, t, rho, y, y)
}

pub proof fn lemma_list_size_elem(bs: Seq<SymbolicBDD>, k: nat, i: int)
    requires 0 <= i < k <= bs.len()
    ensures ast_size(bs[i]) <= list_size(bs, k)
    decreases k
{
    if i < k - 1 { lemma_list_size_elem(bs, (k - 1) as nat, i); }
}

/// every direct child of f is strictly smaller than f (termination of the evaluator)
pub proof fn lemma_children_smaller(f: SymbolicBDD)
    ensures
        f matches SymbolicBDD::CountableConst(_, bs, _) ==> forall|i: int| 0 <= i < bs@.len() ==> ast_size(#[trigger] bs@[i]) < ast_size(f),
        f matches SymbolicBDD::CountableVariable(_, l, r) ==>
            (forall|i: int| 0 <= i < l@.len() ==> ast_size(#[trigger] l@[i]) < ast_size(f))
            && (forall|i: int| 0 <= i < r@.len() ==> ast_size(#[trigger] r@[i]) < ast_size(f)),
{
    match f {
        SymbolicBDD::CountableConst(_, bs, _) => {
            assert forall|i: int| 0 <= i < bs@.len() implies ast_size(#[trigger] bs@[i]) < ast_size(f) by {
                lemma_list_size_elem(bs@, bs@.len(), i);
            }
        }
        SymbolicBDD::CountableVariable(_, l, r) => {
            assert forall|i: int| 0 <= i < l@.len() implies ast_size(#[trigger] l@[i]) < ast_size(f) by {
                lemma_list_size_elem(l@, l@.len(), i);
            }
            assert forall|i: int| 0 <= i < r@.len() implies ast_size(#[trigger] r@[i]) < ast_size(f) by {
                lemma_list_size_elem(r@, r@.len(), i);
            }
        }
        _ => {}
    }
}

/// the diagrams ds denote the formulas bs one by one  ==>  the two notions of "number of true operands" agree
pub proof fn lemma_count_bridge(ds: Seq<Rc<BDD>>, bs: Seq<SymbolicBDD>, i: nat, a: Asg, rho: Rho)
    requires
        ds.len() == bs.len(), i <= bs.len(),
        forall|k: int| 0 <= k < bs.len() ==> eval(*#[trigger] ds[k], a) == sem(bs[k], a, rho),
    ensures count(ds.subrange(i as int, ds.len() as int), a) == scount(bs, i, a, rho)
    decreases bs.len() - i
{
    let d = ds.subrange(i as int, ds.len() as int);
    if i < bs.len() {
        lemma_count_bridge(ds, bs, i + 1, a, rho);
        assert(d.subrange(1, d.len() as int) =~= ds.subrange(i as int + 1, ds.len() as int));
        assert(d[0] == ds[i as int]);
    }
}

/// a diagram rb that denotes the body b turns the library's exq/allq into the language's quantifier meaning
pub proof fn lemma_semq_exq(vs: Seq<Sym>, b: SymbolicBDD, rb: BDD, a: Asg, rho: Rho)
    requires forall|a2: Asg| #[trigger] eval(rb, a2) == sem(b, a2, rho)
    ensures
        exq(vs, rb, a) == semq(QuantifierType::Exists, vs, b, a, rho),
        allq(vs, rb, a) == semq(QuantifierType::Forall, vs, b, a, rho),
    decreases vs.len()
{
    if vs.len() > 0 {
        lemma_semq_exq(vs.subrange(1, vs.len() as int), b, rb, upd(a, vs[0], true), rho);
        lemma_semq_exq(vs.subrange(1, vs.len() as int), b, rb, upd(a, vs[0], false), rho);
    }
}

// ---------------------------------------------------------------- substitution and fixed points (C06)

pub proof fn lemma_list_size_pointwise(bs: Seq<SymbolicBDD>, cs: Seq<SymbolicBDD>, k: nat)
    requires bs.len() == cs.len(), k <= bs.len(), forall|i: int| 0 <= i < bs.len() ==> ast_size(#[trigger] bs[i]) == ast_size(cs[i])
    ensures list_size(bs, k) == list_size(cs, k)
    decreases k
{
    if k > 0 { lemma_list_size_pointwise(bs, cs, (k - 1) as nat); }
}

/// substituting a leaf keeps the size (termination measure of the FixedPoint arm)
pub proof fn lemma_subst_size(f: SymbolicBDD, x: Sym, rep: SymbolicBDD, g: SymbolicBDD)
    requires is_subst(f, x, rep, g), ast_size(rep) == 1
    ensures ast_size(g) == ast_size(f)
    decreases f
{
    match f {
        SymbolicBDD::Not(b) => { lemma_subst_size(*b, x, rep, *g->Not_0); }
        SymbolicBDD::Quantifier(q, vs, b) => { if !sym_in(vs@, x) { lemma_subst_size(*b, x, rep, *g->Quantifier_2); } }
        SymbolicBDD::FixedPoint(v, i, t) => { if v != x { lemma_subst_size(*t, x, rep, *g->FixedPoint_2); } }
        SymbolicBDD::Ite(a, b, c) => {
            lemma_subst_size(*a, x, rep, *g->Ite_0); lemma_subst_size(*b, x, rep, *g->Ite_1); lemma_subst_size(*c, x, rep, *g->Ite_2);
        }
        SymbolicBDD::BinaryOp(op, l, r) => { lemma_subst_size(*l, x, rep, *g->BinaryOp_1); lemma_subst_size(*r, x, rep, *g->BinaryOp_2); }
        SymbolicBDD::CountableConst(op, bs, n) => {
            let cs = g->CountableConst_1;
            assert forall|i: int| 0 <= i < bs@.len() implies ast_size(#[trigger] bs@[i]) == ast_size(cs@[i]) by {
                lemma_subst_size(bs@[i], x, rep, cs@[i]);
            }
            lemma_list_size_pointwise(bs@, cs@, bs@.len());
        }
        SymbolicBDD::CountableVariable(op, l, r) => {
            let l2 = g->CountableVariable_1; let r2 = g->CountableVariable_2;
            assert forall|i: int| 0 <= i < l@.len() implies ast_size(#[trigger] l@[i]) == ast_size(l2@[i]) by {
                lemma_subst_size(l@[i], x, rep, l2@[i]);
            }
            assert forall|i: int| 0 <= i < r@.len() implies ast_size(#[trigger] r@[i]) == ast_size(r2@[i]) by {
                lemma_subst_size(r@[i], x, rep, r2@[i]);
            }
            lemma_list_size_pointwise(l@, l2@, l@.len());
            lemma_list_size_pointwise(r@, r2@, r@.len());
        }
        _ => {}
    }
}

/// substituting an ROBDD leaf keeps the formula reference-free with well-formed embedded diagrams
pub proof fn lemma_subst_ok(f: SymbolicBDD, x: Sym, rep: SymbolicBDD, g: SymbolicBDD)
    requires is_subst(f, x, rep, g), subtrees_ok(f, false), subtrees_ok(rep, false)
    ensures subtrees_ok(g, false)
    decreases f
{
    match f {
        SymbolicBDD::Not(b) => { lemma_subst_ok(*b, x, rep, *g->Not_0); }
        SymbolicBDD::Quantifier(q, vs, b) => { if !sym_in(vs@, x) { lemma_subst_ok(*b, x, rep, *g->Quantifier_2); } }
        SymbolicBDD::FixedPoint(v, i, t) => { if v != x { lemma_subst_ok(*t, x, rep, *g->FixedPoint_2); } }
        SymbolicBDD::Ite(a, b, c) => {
            lemma_subst_ok(*a, x, rep, *g->Ite_0); lemma_subst_ok(*b, x, rep, *g->Ite_1); lemma_subst_ok(*c, x, rep, *g->Ite_2);
        }
        SymbolicBDD::BinaryOp(op, l, r) => { lemma_subst_ok(*l, x, rep, *g->BinaryOp_1); lemma_subst_ok(*r, x, rep, *g->BinaryOp_2); }
        SymbolicBDD::CountableConst(op, bs, n) => {
            let cs = g->CountableConst_1;
            assert forall|i: int| 0 <= i < cs@.len() implies subtrees_ok(#[trigger] cs@[i], false) by {
                assert(is_subst(bs@[i], x, rep, cs@[i]));
                lemma_subst_ok(bs@[i], x, rep, cs@[i]);
            }
        }
        SymbolicBDD::CountableVariable(op, l, r) => {
            let l2 = g->CountableVariable_1; let r2 = g->CountableVariable_2;
            assert forall|i: int| 0 <= i < l2@.len() implies subtrees_ok(#[trigger] l2@[i], false) by {
                assert(is_subst(l@[i], x, rep, l2@[i]));
                lemma_subst_ok(l@[i], x, rep, l2@[i]);
            }
            assert forall|i: int| 0 <= i < r2@.len() implies subtrees_ok(#[trigger] r2@[i], false) by {
                assert(is_subst(r@[i], x, rep, r2@[i]));
                lemma_subst_ok(r@[i], x, rep, r2@[i]);
            }
        }
        _ => {}
    }
}

pub proof fn lemma_fp_step_det(x: Sym, t: SymbolicBDD, rho: Rho, p: BDD, q1: BDD, q2: BDD)
    requires fp_step(x, t, rho, p, q1), fp_step(x, t, rho, p, q2)
    ensures q1 == q2
{
    assert(sem_eq(q1, q2));
    lemma_canon(q1, q2, 0);
}

pub proof fn lemma_fp_trace_prefix(x: Sym, i: bool, t: SymbolicBDD, rho: Rho, tr1: Seq<BDD>, tr2: Seq<BDD>, k: int)
    requires fp_trace(x, i, t, rho, tr1), fp_trace(x, i, t, rho, tr2), 0 <= k < tr1.len(), k < tr2.len()
    ensures tr1[k] == tr2[k]
    decreases k
{
    if k > 0 {
        lemma_fp_trace_prefix(x, i, t, rho, tr1, tr2, k - 1);
        assert(fp_step(x, t, rho, tr1[k - 1], tr1[k - 1 + 1]));
        assert(fp_step(x, t, rho, tr2[k - 1], tr2[k - 1 + 1]));
        lemma_fp_step_det(x, t, rho, tr1[k - 1], tr1[k], tr2[k]);
    }
}

/// the iteration has at most one result: every step is determined by canonicity, and the first stable iterate ends every trace
pub proof fn lemma_fp_result_unique(x: Sym, i: bool, t: SymbolicBDD, rho: Rho, y1: BDD, y2: BDD)
    requires fp_result(x, i, t, rho, y1), fp_result(x, i, t, rho, y2)
    ensures y1 == y2
{
    let tr1 = choose|tr: Seq<BDD>| #[trigger] tr_tag(tr) && fp_trace(x, i, t, rho, tr) && tr[tr.len() - 1] == y1 && fp_step(x, t, rho, y1, y1);
    let tr2 = choose|tr: Seq<BDD>| #[trigger] tr_tag(tr) && fp_trace(x, i, t, rho, tr) && tr[tr.len() - 1] == y2 && fp_step(x, t, rho, y2, y2);
    let n1 = tr1.len() as int; let n2 = tr2.len() as int;
    if n1 < n2 {
        lemma_fp_trace_prefix(x, i, t, rho, tr1, tr2, n1 - 1);
        assert(fp_step(x, t, rho, tr2[n1 - 1], tr2[n1 - 1 + 1]) && tr2[n1 - 1 + 1] != tr2[n1 - 1]);
        lemma_fp_step_det(x, t, rho, y1, y1, tr2[n1]);
        assert(false);
    } else if n2 < n1 {
        lemma_fp_trace_prefix(x, i, t, rho, tr1, tr2, n2 - 1);
        assert(fp_step(x, t, rho, tr1[n2 - 1], tr1[n2 - 1 + 1]) && tr1[n2 - 1 + 1] != tr1[n2 - 1]);
        lemma_fp_step_det(x, t, rho, y2, y2, tr1[n2]);
        assert(false);
    } else {
        lemma_fp_trace_prefix(x, i, t, rho, tr1, tr2, n1 - 1);
    }
}

/// any result of the iteration is THE value of the fixed-point formula
pub proof fn lemma_fp_sem_is_result(x: Sym, i: bool, t: SymbolicBDD, rho: Rho, y: BDD, a: Asg)
    requires fp_result(x, i, t, rho, y)
    ensures fp_sem(x, i, t, rho, a) == eval(y, a)
{
    if fp_sem(x, i, t, rho, a) {
        let c = choose|c: BDD| fp_result(x, i, t, rho, c) && #[trigger] eval(c, a);
        lemma_fp_result_unique(x, i, t, rho, y, c);
    }
}

/// two (body, environment) pairs with the same step relation have the same fixed-point value
pub proof fn lemma_fp_sem_equiv(x: Sym, i: bool, t1: SymbolicBDD, rho1: Rho, t2: SymbolicBDD, rho2: Rho, a: Asg)
    requires forall|p: BDD, q: BDD| #[trigger] pq_tag(p, q) ==> fp_step(x, t1, rho1, p, q) == fp_step(x, t2, rho2, p, q)
    ensures fp_sem(x, i, t1, rho1, a) == fp_sem(x, i, t2, rho2, a)
{
    assert forall|tr: Seq<BDD>| #[trigger] tr_tag(tr) implies fp_trace(x, i, t1, rho1, tr) == fp_trace(x, i, t2, rho2, tr) by {
        if fp_trace(x, i, t1, rho1, tr) {
            assert forall|k: int| 0 <= k < tr.len() - 1 implies fp_step(x, t2, rho2, #[trigger] tr[k], tr[k + 1]) && tr[k + 1] != tr[k] by {
                assert(pq_tag(tr[k], tr[k + 1]));
                assert(fp_step(x, t1, rho1, tr[k], tr[k + 1]));
            }
        }
        if fp_trace(x, i, t2, rho2, tr) {
            assert forall|k: int| 0 <= k < tr.len() - 1 implies fp_step(x, t1, rho1, #[trigger] tr[k], tr[k + 1]) && tr[k + 1] != tr[k] by {
                assert(pq_tag(tr[k], tr[k + 1]));
                assert(fp_step(x, t2, rho2, tr[k], tr[k + 1]));
            }
        }
    }
    assert forall|y: BDD| #[trigger] pq_tag(y, y) implies fp_result(x, i, t1, rho1, y) == fp_result(x, i, t2, rho2, y) by {
        if fp_result(x, i, t1, rho1, y) {
            let tr = choose|tr: Seq<BDD>| #[trigger] tr_tag(tr) && fp_trace(x, i, t1, rho1, tr) && tr[tr.len() - 1] == y && fp_step(x, t1, rho1, y, y);
            assert(tr_tag(tr) && fp_trace(x, i, t2, rho2, tr) && tr[tr.len() - 1] == y && fp_step(x, t2, rho2, y, y));
        }
        if fp_result(x, i, t2, rho2, y) {
            let tr = choose|tr: Seq<BDD>| #[trigger] tr_tag(tr) && fp_trace(x, i, t2, rho2, tr) && tr[tr.len() - 1] == y && fp_step(x, t2, rho2, y, y);
            assert(tr_tag(tr) && fp_trace(x, i, t1, rho1, tr) && tr[tr.len() - 1] == y && fp_step(x, t1, rho1, y, y));
        }
    }
    if fp_sem(x, i, t1, rho1, a) {
        let y = choose|y: BDD| fp_result(x, i, t1, rho1, y) && #[trigger] eval(y, a);
        assert(pq_tag(y, y));
        assert(fp_result(x, i, t2, rho2, y) && eval(y, a));
    }
    if fp_sem(x, i, t2, rho2, a) {
        let y = choose|y: BDD| fp_result(x, i, t2, rho2, y) && #[trigger] eval(y, a);
        assert(pq_tag(y, y));
        assert(fp_result(x, i, t1, rho1, y) && eval(y, a));
    }
}
pub open spec fn pq_tag(p: BDD, q: BDD) -> bool { true }

pub open spec fn ar_tag(a: Asg, rho: Rho) -> bool { true }

/// g behaves under every (assignment, environment) like f under the environment extended with x := y
pub open spec fn subst_sem(f: SymbolicBDD, x: Sym, y: BDD, g: SymbolicBDD) -> bool {
    forall|a: Asg, rho: Rho| #[trigger] ar_tag(a, rho) ==> sem(g, a, rho) == sem(f, a, rho.insert(x, y))
}

pub proof fn lemma_semq_cong(q: QuantifierType, vs: Seq<Sym>, b: SymbolicBDD, b2: SymbolicBDD, x: Sym, y: BDD, a: Asg, rho: Rho)
    requires subst_sem(b, x, y, b2)
    ensures semq(q, vs, b2, a, rho) == semq(q, vs, b, a, rho.insert(x, y))
    decreases vs.len()
{
    if vs.len() == 0 {
        assert(ar_tag(a, rho));
    } else {
        lemma_semq_cong(q, vs.subrange(1, vs.len() as int), b, b2, x, y, upd(a, vs[0], true), rho);
        lemma_semq_cong(q, vs.subrange(1, vs.len() as int), b, b2, x, y, upd(a, vs[0], false), rho);
    }
}

pub proof fn lemma_scount_cong(bs: Seq<SymbolicBDD>, cs: Seq<SymbolicBDD>, i: nat, x: Sym, y: BDD, a: Asg, rho: Rho)
    requires bs.len() == cs.len(), forall|k: int| 0 <= k < bs.len() ==> subst_sem(#[trigger] bs[k], x, y, cs[k])
    ensures scount(cs, i, a, rho) == scount(bs, i, a, rho.insert(x, y))
    decreases bs.len() - i
{
    if i < bs.len() {
        lemma_scount_cong(bs, cs, i + 1, x, y, a, rho);
        assert(subst_sem(bs[i as int], x, y, cs[i as int]));
        assert(ar_tag(a, rho));
    }
}

/// substitution lemma: evaluating T with X textually replaced by the diagram y  ==  evaluating T in an environment X := y
pub proof fn lemma_subst_sem(f: SymbolicBDD, x: Sym, rep: SymbolicBDD, y: BDD, g: SymbolicBDD)
    requires is_subst(f, x, rep, g), rep is Subtree, *rep->Subtree_0 == y
    ensures subst_sem(f, x, y, g)
    decreases f
{
    match f {
        SymbolicBDD::Var(v) => {}
        SymbolicBDD::False | SymbolicBDD::True | SymbolicBDD::Subtree(_) | SymbolicBDD::Reference(_) => {}
        SymbolicBDD::Not(b) => {
            let b2 = *g->Not_0;
            lemma_subst_sem(*b, x, rep, y, b2);
            assert forall|a: Asg, rho: Rho| #[trigger] ar_tag(a, rho) implies sem(g, a, rho) == sem(f, a, rho.insert(x, y)) by {
                assert(ar_tag(a, rho));
                assert(sem(b2, a, rho) == sem(*b, a, rho.insert(x, y)));
            }
        }
        SymbolicBDD::Quantifier(q, vs, b) => {
            lemma_sym_in(vs@, x);
            if sym_in(vs@, x) {
                assert forall|a: Asg, rho: Rho| #[trigger] ar_tag(a, rho) implies sem(g, a, rho) == sem(f, a, rho.insert(x, y)) by {
                    assert(rho.remove_keys(vs@.to_set()) =~= rho.insert(x, y).remove_keys(vs@.to_set()));
                }
            } else {
                let b2 = *g->Quantifier_2;
                lemma_subst_sem(*b, x, rep, y, b2);
                assert forall|a: Asg, rho: Rho| #[trigger] ar_tag(a, rho) implies sem(g, a, rho) == sem(f, a, rho.insert(x, y)) by {
                    let r0 = rho.remove_keys(vs@.to_set());
                    assert(r0.insert(x, y) =~= rho.insert(x, y).remove_keys(vs@.to_set()));
                    lemma_semq_cong(q, vs@, *b, b2, x, y, a, r0);
                }
            }
        }
        SymbolicBDD::FixedPoint(v, i, t) => {
            if v == x {
                assert forall|a: Asg, rho: Rho| #[trigger] ar_tag(a, rho) implies sem(g, a, rho) == sem(f, a, rho.insert(x, y)) by {
                    assert forall|p: BDD, q: BDD| #[trigger] pq_tag(p, q) implies fp_step(v, *t, rho, p, q) == fp_step(v, *t, rho.insert(x, y), p, q) by {
                        assert(rho.insert(v, p) =~= rho.insert(x, y).insert(v, p));
                    }
                    lemma_fp_sem_equiv(v, i, *t, rho, *t, rho.insert(x, y), a);
                }
            } else {
                let t2 = *g->FixedPoint_2;
                lemma_subst_sem(*t, x, rep, y, t2);
                assert forall|a: Asg, rho: Rho| #[trigger] ar_tag(a, rho) implies sem(g, a, rho) == sem(f, a, rho.insert(x, y)) by {
                    assert forall|p: BDD, q: BDD| #[trigger] pq_tag(p, q) implies fp_step(v, t2, rho, p, q) == fp_step(v, *t, rho.insert(x, y), p, q) by {
                        assert(rho.insert(v, p).insert(x, y) =~= rho.insert(x, y).insert(v, p));
                        if fp_step(v, t2, rho, p, q) {
                            assert forall|a2: Asg| #[trigger] eval(q, a2) == sem(*t, a2, rho.insert(x, y).insert(v, p)) by {
                                assert(ar_tag(a2, rho.insert(v, p)));
                            }
                            assert(fp_step(v, *t, rho.insert(x, y), p, q));
                        }
                        if fp_step(v, *t, rho.insert(x, y), p, q) {
                            assert forall|a2: Asg| #[trigger] eval(q, a2) == sem(t2, a2, rho.insert(v, p)) by {
                                assert(ar_tag(a2, rho.insert(v, p)));
                            }
                            assert(fp_step(v, t2, rho, p, q));
                        }
                    }
                    lemma_fp_sem_equiv(v, i, t2, rho, *t, rho.insert(x, y), a);
                }
            }
        }
        SymbolicBDD::Ite(c, t, e) => {
            let c2 = *g->Ite_0; let t2 = *g->Ite_1; let e2 = *g->Ite_2;
            lemma_subst_sem(*c, x, rep, y, c2); lemma_subst_sem(*t, x, rep, y, t2); lemma_subst_sem(*e, x, rep, y, e2);
            assert forall|a: Asg, rho: Rho| #[trigger] ar_tag(a, rho) implies sem(g, a, rho) == sem(f, a, rho.insert(x, y)) by {
                assert(ar_tag(a, rho));
                assert(sem(c2, a, rho) == sem(*c, a, rho.insert(x, y)));
                assert(sem(t2, a, rho) == sem(*t, a, rho.insert(x, y)));
                assert(sem(e2, a, rho) == sem(*e, a, rho.insert(x, y)));
            }
        }
        SymbolicBDD::BinaryOp(op, l, r) => {
            let l2 = *g->BinaryOp_1; let r2 = *g->BinaryOp_2;
            lemma_subst_sem(*l, x, rep, y, l2); lemma_subst_sem(*r, x, rep, y, r2);
            assert forall|a: Asg, rho: Rho| #[trigger] ar_tag(a, rho) implies sem(g, a, rho) == sem(f, a, rho.insert(x, y)) by {
                assert(ar_tag(a, rho));
                assert(sem(l2, a, rho) == sem(*l, a, rho.insert(x, y)));
                assert(sem(r2, a, rho) == sem(*r, a, rho.insert(x, y)));
            }
        }
        SymbolicBDD::CountableConst(op, bs, n) => {
            let cs = g->CountableConst_1;
            assert forall|k: int| 0 <= k < bs@.len() implies subst_sem(#[trigger] bs@[k], x, y, cs@[k]) by {
                lemma_subst_sem(bs@[k], x, rep, y, cs@[k]);
            }
            assert forall|a: Asg, rho: Rho| #[trigger] ar_tag(a, rho) implies sem(g, a, rho) == sem(f, a, rho.insert(x, y)) by {
                lemma_scount_cong(bs@, cs@, 0, x, y, a, rho);
            }
        }
        SymbolicBDD::CountableVariable(op, l, r) => {
            let l2 = g->CountableVariable_1; let r2 = g->CountableVariable_2;
            assert forall|k: int| 0 <= k < l@.len() implies subst_sem(#[trigger] l@[k], x, y, l2@[k]) by {
                lemma_subst_sem(l@[k], x, rep, y, l2@[k]);
            }
            assert forall|k: int| 0 <= k < r@.len() implies subst_sem(#[trigger] r@[k], x, y, r2@[k]) by {
                lemma_subst_sem(r@[k], x, rep, y, r2@[k]);
            }
            assert forall|a: Asg, rho: Rho| #[trigger] ar_tag(a, rho) implies sem(g, a, rho) == sem(f, a, rho.insert(x, y)) by {
                lemma_scount_cong(l@, l2@, 0, x, y, a, rho);
                lemma_scount_cong(r@, r2@, 0, x, y, a, rho);
            }
        }
    }
}

// ================================================================ grammar (C08): README "Syntax" as total functions on token sequences

pub type Tok = SymbolicBDDToken;
pub type Toks = Seq<SymbolicBDDToken>;

/// specification-level syntax tree (the exec tree SymbolicBDD holds Vec/Box and cannot be built in spec code)
pub ghost enum Ast {
    False,
    True,
    Var(Sym),
    Reference(String),
    Not(Box<Ast>),
    Quantifier(QuantifierType, Seq<Sym>, Box<Ast>),
    CountableConst(CountableOperator, Seq<Ast>, usize),
    CountableVariable(CountableOperator, Seq<Ast>, Seq<Ast>),
    FixedPoint(Sym, bool, Box<Ast>),
    Ite(Box<Ast>, Box<Ast>, Box<Ast>),
    BinaryOp(BinaryOperator, Box<Ast>, Box<Ast>),
}

/// the exec tree f is the tree a
pub open spec fn repr(f: SymbolicBDD, a: Ast) -> bool
    decreases f
{
    match f {
        SymbolicBDD::False => a is False,
        SymbolicBDD::True => a is True,
        SymbolicBDD::Var(v) => a matches Ast::Var(w) && w == v,
        SymbolicBDD::Reference(n) => a matches Ast::Reference(m) && m == n,
        SymbolicBDD::Subtree(_) => false,
        SymbolicBDD::Not(b) => a matches Ast::Not(b2) && repr(*b, *b2),
        SymbolicBDD::Quantifier(q, vs, b) => a matches Ast::Quantifier(q2, vs2, b2) && q2 == q && vs2 == vs@ && repr(*b, *b2),
        SymbolicBDD::CountableConst(op, bs, n) => a matches Ast::CountableConst(op2, cs, n2) && op2 == op && n2 == n && repr_list(bs@, cs),
        SymbolicBDD::CountableVariable(op, l, r) => a matches Ast::CountableVariable(op2, l2, r2) && op2 == op && repr_list(l@, l2) && repr_list(r@, r2),
        SymbolicBDD::FixedPoint(x, i, t) => a matches Ast::FixedPoint(x2, i2, t2) && x2 == x && i2 == i && repr(*t, *t2),
        SymbolicBDD::Ite(c, t, e) => a matches Ast::Ite(c2, t2, e2) && repr(*c, *c2) && repr(*t, *t2) && repr(*e, *e2),
        SymbolicBDD::BinaryOp(op, l, r) => a matches Ast::BinaryOp(op2, l2, r2) && op2 == op && repr(*l, *l2) && repr(*r, *r2),
    }
}
pub open spec fn repr_list(fs: Seq<SymbolicBDD>, cs: Seq<Ast>) -> bool
    decreases fs
{
    fs.len() == cs.len() && forall|i: int| 0 <= i < fs.len() ==> repr(#[trigger] fs[i], cs[i])
}

pub open spec fn binop_of(t: Tok) -> Option<BinaryOperator> {
    match t {
        SymbolicBDDToken::And => Some(BinaryOperator::And),
        SymbolicBDDToken::Or => Some(BinaryOperator::Or),
        SymbolicBDDToken::Xor => Some(BinaryOperator::Xor),
        SymbolicBDDToken::Nor => Some(BinaryOperator::Nor),
        SymbolicBDDToken::Nand => Some(BinaryOperator::Nand),
        SymbolicBDDToken::Implies => Some(BinaryOperator::Implies),
        SymbolicBDDToken::ImpliesInv => Some(BinaryOperator::ImpliesInv),
        SymbolicBDDToken::Iff => Some(BinaryOperator::Iff),
        _ => None,
    }
}

/// counting operators; `<=` is the same token as reverse implication
pub open spec fn cntop_of(t: Tok) -> Option<CountableOperator> {
    match t {
        SymbolicBDDToken::Eq => Some(CountableOperator::Exactly),
        SymbolicBDDToken::ImpliesInv => Some(CountableOperator::AtMost),
        SymbolicBDDToken::Geq => Some(CountableOperator::AtLeast),
        SymbolicBDDToken::Lt => Some(CountableOperator::LessThan),
        SymbolicBDDToken::Gt => Some(CountableOperator::MoreThan),
        _ => None,
    }
}

pub open spec fn head_is(ts: Toks, t: Tok) -> bool { ts.len() > 0 && ts[0] == t }

pub type PRes = Option<(Ast, Toks)>;

/// simple term: parenthesised formula, counting formula, constant, reference, variable, negation of a simple term,
/// quantifier, fixed point, if-then-else
pub open spec fn p_simple(ts: Toks) -> PRes
    decreases ts.len(), 2nat
{
    if ts.len() == 0 { None } else {
        match ts[0] {
            SymbolicBDDToken::OpenParen => p_paren(ts),
            SymbolicBDDToken::OpenSquare => p_countable(ts),
            SymbolicBDDToken::False => Some((Ast::False, ts.skip(1))),
            SymbolicBDDToken::True => Some((Ast::True, ts.skip(1))),
            SymbolicBDDToken::Reference(n) => Some((Ast::Reference(n), ts.skip(1))),
            SymbolicBDDToken::Var(v) => Some((Ast::Var(v), ts.skip(1))),
            SymbolicBDDToken::Not => p_negation(ts),
            SymbolicBDDToken::Exists => p_quant(QuantifierType::Exists, ts),
            SymbolicBDDToken::Forall => p_quant(QuantifierType::Forall, ts),
            SymbolicBDDToken::GFP => p_fixed(ts, true),
            SymbolicBDDToken::LFP => p_fixed(ts, false),
            SymbolicBDDToken::If => p_ite(ts),
            _ => None,
        }
    }
}

/// formula: simple term, optionally followed by a binary operator and a formula (right associative, no precedence)
pub open spec fn p_sub(ts: Toks) -> PRes
    decreases ts.len(), 3nat
{
    match p_simple(ts) {
        None => None,
        Some((left, r)) =>
            if r.len() > 0 && binop_of(r[0]) is Some {
                if r.len() <= ts.len() {
                    match p_sub(r.skip(1)) {
                        Some((right, r2)) => Some((Ast::BinaryOp(binop_of(r[0])->0, Box::new(left), Box::new(right)), r2)),
                        None => None,
                    }
                } else { None }
            } else { Some((left, r)) },
    }
}

/// `(` formula `)`
pub open spec fn p_paren(ts: Toks) -> PRes
    decreases ts.len(), 1nat
{
    if !head_is(ts, SymbolicBDDToken::OpenParen) { None } else {
        match p_sub(ts.skip(1)) {
            Some((f, r)) => if head_is(r, SymbolicBDDToken::CloseParen) { Some((f, r.skip(1))) } else { None },
            None => None,
        }
    }
}

/// prefix negation applies to the next simple term
pub open spec fn p_negation(ts: Toks) -> PRes
    decreases ts.len(), 1nat
{
    if !head_is(ts, SymbolicBDDToken::Not) { None } else {
        match p_simple(ts.skip(1)) {
            Some((f, r)) => Some((Ast::Not(Box::new(f)), r)),
            None => None,
        }
    }
}

/// `if` formula `then` formula `else` formula   (the else branch extends as far right as possible)
pub open spec fn p_ite(ts: Toks) -> PRes
    decreases ts.len(), 1nat
{
    if !head_is(ts, SymbolicBDDToken::If) { None } else {
        match p_sub(ts.skip(1)) {
            None => None,
            Some((c, r1)) => if !(head_is(r1, SymbolicBDDToken::Then) && r1.len() <= ts.len()) { None } else {
                match p_sub(r1.skip(1)) {
                    None => None,
                    Some((t, r2)) => if !(head_is(r2, SymbolicBDDToken::Else) && r2.len() <= ts.len()) { None } else {
                        match p_sub(r2.skip(1)) {
                            None => None,
                            Some((e, r3)) => Some((Ast::Ite(Box::new(c), Box::new(t), Box::new(e)), r3)),
                        }
                    },
                }
            },
        }
    }
}

/// variable list `v1, v2, ..` up to (not including) `#`; may be empty; a trailing comma is allowed
pub open spec fn p_vars(ts: Toks, acc: Seq<Sym>) -> Option<(Seq<Sym>, Toks)>
    decreases ts.len()
{
    if head_is(ts, SymbolicBDDToken::Hash) { Some((acc, ts)) }
    else if ts.len() > 0 && ts[0] is Var {
        let r = ts.skip(1);
        if head_is(r, SymbolicBDDToken::Comma) { p_vars(r.skip(1), acc.push(ts[0]->Var_0)) } else { Some((acc.push(ts[0]->Var_0), r)) }
    } else { None }
}

/// `exists|forall` variable-list `#` formula   (the body extends as far right as possible)
pub open spec fn p_quant(q: QuantifierType, ts: Toks) -> PRes
    decreases ts.len(), 1nat
{
    if !head_is(ts, if q == QuantifierType::Exists { SymbolicBDDToken::Exists } else { SymbolicBDDToken::Forall }) { None } else {
        match p_vars(ts.skip(1), Seq::empty()) {
            None => None,
            Some((vs, r)) => if !(head_is(r, SymbolicBDDToken::Hash) && r.len() <= ts.len()) { None } else {
                match p_sub(r.skip(1)) {
                    None => None,
                    Some((f, r2)) => Some((Ast::Quantifier(q, vs, Box::new(f)), r2)),
                }
            },
        }
    }
}

/// `gfp|lfp` variable `#` formula; gfp/nu iterate from true, lfp/mu from false
pub open spec fn p_fixed(ts: Toks, init: bool) -> PRes
    decreases ts.len(), 1nat
{
    if !(ts.len() >= 3 && ts[0] == (if init { SymbolicBDDToken::GFP } else { SymbolicBDDToken::LFP }) && ts[1] is Var && ts[2] == SymbolicBDDToken::Hash) { None } else {
        match p_sub(ts.skip(3)) {
            None => None,
            Some((f, r)) => Some((Ast::FixedPoint(ts[1]->Var_0, init, Box::new(f)), r)),
        }
    }
}

/// list items after `[`: formulas separated by commas, up to (not including) `]`; a trailing comma is allowed
pub open spec fn p_items(ts: Toks, acc: Seq<Ast>) -> Option<(Seq<Ast>, Toks)>
    decreases ts.len(), 4nat
{
    if head_is(ts, SymbolicBDDToken::CloseSquare) { Some((acc, ts)) } else {
        match p_sub(ts) {
            None => None,
            Some((f, r)) =>
                if head_is(r, SymbolicBDDToken::Comma) {
                    if r.len() <= ts.len() { p_items(r.skip(1), acc.push(f)) } else { None }
                } else { Some((acc.push(f), r)) },
        }
    }
}

/// `[` items `]`
pub open spec fn p_list(ts: Toks) -> Option<(Seq<Ast>, Toks)>
    decreases ts.len(), 0nat
{
    if !head_is(ts, SymbolicBDDToken::OpenSquare) { None } else {
        match p_items(ts.skip(1), Seq::empty()) {
            None => None,
            Some((fs, r)) => if head_is(r, SymbolicBDDToken::CloseSquare) { Some((fs, r.skip(1))) } else { None },
        }
    }
}

/// list, counting operator, then a second list or a number
pub open spec fn p_countable(ts: Toks) -> PRes
    decreases ts.len(), 1nat
{
    match p_list(ts) {
        None => None,
        Some((l, r)) =>
            if !(r.len() > 0 && cntop_of(r[0]) is Some) { None } else {
                let op = cntop_of(r[0])->0;
                let r1 = r.skip(1);
                if head_is(r1, SymbolicBDDToken::OpenSquare) {
                    if r1.len() < ts.len() {
                        match p_list(r1) {
                            None => None,
                            Some((rl, r2)) => Some((Ast::CountableVariable(op, l, rl), r2)),
                        }
                    } else { None }
                } else if r1.len() > 0 && r1[0] is Countable {
                    Some((Ast::CountableConst(op, l, r1[0]->Countable_0), r1.skip(1)))
                } else { None }
            },
    }
}

/// a sentence: formula followed by end of input
pub open spec fn p_formula(ts: Toks) -> Option<Ast> {
    match p_sub(ts) {
        Some((f, r)) => if head_is(r, SymbolicBDDToken::Eof) { Some(f) } else { None },
        None => None,
    }
}

/// the exec result r / remaining tokens rem agree with the grammar's verdict pr
pub open spec fn pres_ok(pr: PRes, r: Result<SymbolicBDD, io::Error>, rem: Toks) -> bool {
    match pr {
        Some((ast, rr)) => r is Ok && repr(r->Ok_0, ast) && rem == rr,
        None => r is Err,
    }
}
pub open spec fn plist_ok(pr: Option<(Seq<Ast>, Toks)>, r: Result<Vec<SymbolicBDD>, io::Error>, rem: Toks) -> bool {
    match pr {
        Some((asts, rr)) => r is Ok && repr_list(r->Ok_0@, asts) && rem == rr,
        None => r is Err,
    }
}

/// skip arithmetic on token sequences
pub proof fn lemma_skips(ts: Toks)
    ensures
        ts.len() >= 1 ==> ts.skip(1).len() == ts.len() - 1,
        ts.len() >= 2 ==> ts.skip(1)[0] == ts[1] && ts.skip(1).skip(1) =~= ts.skip(2),
        ts.len() >= 3 ==> ts.skip(2)[0] == ts[2] && ts.skip(2).skip(1) =~= ts.skip(3),
{
}

// ================================================================ variable lists and the column table (C09, C11)

pub open spec fn distinct_ids(vs: Seq<Sym>) -> bool {
    forall|i: int, j: int| 0 <= i < vs.len() && 0 <= j < vs.len() && i != j ==> (#[trigger] vs[i]).id != (#[trigger] vs[j]).id
}

pub open spec fn sorted_ids(vs: Seq<Sym>) -> bool {
    forall|i: int, j: int| 0 <= i < j < vs.len() ==> (#[trigger] vs[i]).id <= (#[trigger] vs[j]).id
}

/// the variables among the first k of vs that are free in f, in the same order
pub open spec fn free_prefix(vs: Seq<Sym>, f: SymbolicBDD, k: int) -> Seq<Sym>
    decreases k
{
    if k <= 0 { Seq::empty() } else {
        let p = free_prefix(vs, f, k - 1);
        if free_in(f, vs[k - 1]) { p.push(vs[k - 1]) } else { p }
    }
}

/// raw2free maps the id of every variable to its column among the free variables (None if it is bound)
pub open spec fn table_ok(vs: Seq<Sym>, f: SymbolicBDD, tab: Seq<Option<usize>>, upto: int) -> bool {
    forall|k: int| 0 <= k < upto ==> (#[trigger] vs[k]).id < tab.len()
        && tab[vs[k].id as int] == (if free_in(f, vs[k]) { Some(free_prefix(vs, f, k).len() as usize) } else { None::<usize> })
}

pub proof fn lemma_free_prefix_len(vs: Seq<Sym>, f: SymbolicBDD, k: int)
    requires 0 <= k <= vs.len()
    ensures free_prefix(vs, f, k).len() <= k
    decreases k
{
    if k > 0 { lemma_free_prefix_len(vs, f, k - 1); }
}

/// a tree the parser built contains no embedded diagrams
pub proof fn lemma_repr_plain(f: SymbolicBDD, a: Ast)
    requires repr(f, a)
    ensures subtrees_ok(f, true), subtrees_ok(f, false)
    decreases f
{
    match f {
        SymbolicBDD::Not(b) => { lemma_repr_plain(*b, *a->Not_0); }
        SymbolicBDD::Quantifier(_, _, b) => { lemma_repr_plain(*b, *a->Quantifier_2); }
        SymbolicBDD::FixedPoint(_, _, t) => { lemma_repr_plain(*t, *a->FixedPoint_2); }
        SymbolicBDD::Ite(c, t, e) => { lemma_repr_plain(*c, *a->Ite_0); lemma_repr_plain(*t, *a->Ite_1); lemma_repr_plain(*e, *a->Ite_2); }
        SymbolicBDD::BinaryOp(_, l, r) => { lemma_repr_plain(*l, *a->BinaryOp_1); lemma_repr_plain(*r, *a->BinaryOp_2); }
        SymbolicBDD::CountableConst(_, bs, _) => {
            let cs = a->CountableConst_1;
            assert forall|i: int| 0 <= i < bs@.len() implies subtrees_ok(#[trigger] bs@[i], true) && subtrees_ok(bs@[i], false) by {
                assert(repr_list(bs@, cs));
                assert(repr(bs@[i], cs[i]));
                lemma_repr_plain(bs@[i], cs[i]);
            }
        }
        SymbolicBDD::CountableVariable(_, l, r) => {
            let l2 = a->CountableVariable_1; let r2 = a->CountableVariable_2;
            assert forall|i: int| 0 <= i < l@.len() implies subtrees_ok(#[trigger] l@[i], true) && subtrees_ok(l@[i], false) by {
                assert(repr_list(l@, l2));
                assert(repr(l@[i], l2[i]));
                lemma_repr_plain(l@[i], l2[i]);
            }
            assert forall|i: int| 0 <= i < r@.len() implies subtrees_ok(#[trigger] r@[i], true) && subtrees_ok(r@[i], false) by {
                assert(repr_list(r@, r2));
                assert(repr(r@[i], r2[i]));
                lemma_repr_plain(r@[i], r2[i]);
            }
        }
        _ => {}
    }
}

/// the j-th free variable is some vs[m] that is free, and exactly j free variables precede it
pub proof fn lemma_free_prefix_elem(vs: Seq<Sym>, f: SymbolicBDD, k: int, j: int) -> (m: int)
    requires 0 <= k <= vs.len(), 0 <= j < free_prefix(vs, f, k).len()
    ensures 0 <= m < k, free_prefix(vs, f, k)[j] == vs[m], free_in(f, vs[m]), free_prefix(vs, f, m).len() == j
    decreases k
{
    let p = free_prefix(vs, f, k - 1);
    if free_in(f, vs[k - 1]) && j == p.len() {
        k - 1
    } else {
        lemma_free_prefix_elem(vs, f, k - 1, j)
    }
}

/// C11/C10 glue: with the table new_with_env builds, to_free_index(free_vars[j]) == j for every free variable
pub proof fn lemma_column(vs: Seq<Sym>, f: SymbolicBDD, tab: Seq<Option<usize>>, j: int)
    requires table_ok(vs, f, tab, vs.len() as int), 0 <= j < free_prefix(vs, f, vs.len() as int).len()
    ensures
        free_prefix(vs, f, vs.len() as int)[j].id < tab.len(),
        tab[free_prefix(vs, f, vs.len() as int)[j].id as int] == Some(j as usize),
{
    let m = lemma_free_prefix_elem(vs, f, vs.len() as int, j);
    lemma_free_prefix_len(vs, f, m);
    assert(vs[m].id < tab.len());
}

/// every listed free variable is free, and every free variable of the list is listed (C09)
pub proof fn lemma_free_prefix_exact(vs: Seq<Sym>, f: SymbolicBDD, k: int, v: Sym)
    requires 0 <= k <= vs.len()
    ensures free_prefix(vs, f, k).contains(v) <==> (exists|m: int| 0 <= m < k && vs[m] == v && free_in(f, v))
    decreases k
{
    if k > 0 {
        lemma_free_prefix_exact(vs, f, k - 1, v);
        let p = free_prefix(vs, f, k - 1);
        if free_in(f, vs[k - 1]) {
            let q = p.push(vs[k - 1]);
            if q.contains(v) {
                let i = choose|i: int| 0 <= i < q.len() && q[i] == v;
                if i < p.len() { assert(p[i] == v); assert(p.contains(v)); } else { assert(vs[k - 1] == v); }
            }
            if p.contains(v) {
                let i = choose|i: int| 0 <= i < p.len() && p[i] == v;
                assert(q[i] == v);
            }
            if vs[k - 1] == v { assert(q[p.len() as int] == v); }
        }
    }
}

// ================================================================ history independence (C13)

/// two diagrams that satisfy the same semantic postcondition for the same arguments are the same diagram, whatever
/// environment and whatever earlier computations produced them (instance: conjunction; every operation's contract
/// has this shape: a truth function of the arguments + robdd)
pub proof fn lemma_result_determined(r1: BDD, r2: BDD, lo: int)
    requires robdd(r1, lo), robdd(r2, lo), forall|s: Asg| eval(r1, s) == eval(r2, s)
    ensures r1 == r2
{
    assert(sem_eq(r1, r2));
    lemma_canon(r1, r2, lo);
}

pub proof fn lemma_and_history_independent(a: BDD, b: BDD, r1: BDD, r2: BDD, lo: int)
    requires
        robdd(r1, lo), robdd(r2, lo),
        forall|s: Asg| #[trigger] eval(r1, s) == (eval(a, s) && eval(b, s)),
        forall|s: Asg| #[trigger] eval(r2, s) == (eval(a, s) && eval(b, s)),
    ensures r1 == r2
{
    lemma_result_determined(r1, r2, lo);
}

// ================================================================ results depend only on free variables (C09)

pub open spec fn indep(b: BDD, v: Sym) -> bool {
    forall|a: Asg, x: bool| #[trigger] eval(b, upd(a, v, x)) == eval(b, a)
}

pub open spec fn rho_indep(rho: Rho, v: Sym) -> bool {
    forall|k: Sym| rho.dom().contains(k) ==> indep(#[trigger] rho[k], v)
}

pub open spec fn ax_tag(a: Asg, x: bool) -> bool { true }

/// the meaning of f does not change when the value of v changes
pub open spec fn sem_indep(f: SymbolicBDD, v: Sym, rho: Rho) -> bool {
    forall|a: Asg, x: bool| #[trigger] ax_tag(a, x) ==> sem(f, upd(a, v, x), rho) == sem(f, a, rho)
}

pub proof fn lemma_upd_same(a: Asg, v: Sym, x: bool, y: bool)
    ensures upd(upd(a, v, x), v, y) == upd(a, v, y)
{
    assert(upd(upd(a, v, x), v, y) =~= upd(a, v, y));
}

pub proof fn lemma_upd_comm(a: Asg, v: Sym, x: bool, w: Sym, y: bool)
    requires v != w
    ensures upd(upd(a, v, x), w, y) == upd(upd(a, w, y), v, x)
{
    assert(upd(upd(a, v, x), w, y) =~= upd(upd(a, w, y), v, x));
}

pub proof fn lemma_semq_indep(q: QuantifierType, vs: Seq<Sym>, b: SymbolicBDD, v: Sym, a: Asg, x: bool, rho: Rho)
    requires vs.contains(v) || sem_indep(b, v, rho)
    ensures semq(q, vs, b, upd(a, v, x), rho) == semq(q, vs, b, a, rho)
    decreases vs.len()
{
    if vs.len() == 0 {
        assert(ax_tag(a, x));
    } else {
        let w = vs[0];
        let rest = vs.subrange(1, vs.len() as int);
        if w == v {
            lemma_upd_same(a, v, x, true);
            lemma_upd_same(a, v, x, false);
        } else {
            if vs.contains(v) {
                let i = choose|i: int| 0 <= i < vs.len() && vs[i] == v;
                assert(rest[i - 1] == v);
                assert(rest.contains(v));
            }
            lemma_upd_comm(a, v, x, w, true);
            lemma_upd_comm(a, v, x, w, false);
            lemma_semq_indep(q, rest, b, v, upd(a, w, true), x, rho);
            lemma_semq_indep(q, rest, b, v, upd(a, w, false), x, rho);
        }
    }
}

pub proof fn lemma_scount_indep(bs: Seq<SymbolicBDD>, i: nat, v: Sym, a: Asg, x: bool, rho: Rho)
    requires forall|k: int| 0 <= k < bs.len() ==> sem_indep(#[trigger] bs[k], v, rho)
    ensures scount(bs, i, upd(a, v, x), rho) == scount(bs, i, a, rho)
    decreases bs.len() - i
{
    if i < bs.len() {
        lemma_scount_indep(bs, i + 1, v, a, x, rho);
        assert(sem_indep(bs[i as int], v, rho));
        assert(ax_tag(a, x));
    }
}

/// every iterate of a fixed-point computation is independent of v if the body is (for independent values of X)
pub proof fn lemma_fp_iterates_indep(xx: Sym, i: bool, t: SymbolicBDD, rho: Rho, v: Sym, tr: Seq<BDD>, k: int)
    requires
        fp_trace(xx, i, t, rho, tr), 0 <= k < tr.len(),
        forall|p: BDD| indep(p, v) ==> sem_indep(t, v, #[trigger] rho.insert(xx, p)),
    ensures indep(tr[k], v)
    decreases k
{
    if k == 0 {
        assert forall|a: Asg, x: bool| #[trigger] eval(tr[0], upd(a, v, x)) == eval(tr[0], a) by {}
    } else {
        lemma_fp_iterates_indep(xx, i, t, rho, v, tr, k - 1);
        let p = tr[k - 1];
        assert(fp_step(xx, t, rho, tr[k - 1], tr[k - 1 + 1]));
        assert(sem_indep(t, v, rho.insert(xx, p)));
        assert forall|a: Asg, x: bool| #[trigger] eval(tr[k], upd(a, v, x)) == eval(tr[k], a) by {
            assert(ax_tag(a, x));
        }
    }
}

/// sem ignores the value of a variable that is not free in f (and that no diagram in the environment depends on)
pub proof fn lemma_sem_indep(f: SymbolicBDD, v: Sym, rho: Rho)
    requires rho.dom().contains(v) || !fv(f, v), rho_indep(rho, v), subtrees_ok(f, true)
    ensures sem_indep(f, v, rho)
    decreases f
{
    match f {
        SymbolicBDD::False | SymbolicBDD::True | SymbolicBDD::Subtree(_) | SymbolicBDD::Reference(_) => {
            if f is Reference {
                assert(sem_indep(f, v, rho));
            }
        }
        SymbolicBDD::Var(w) => {
            assert forall|a: Asg, x: bool| #[trigger] ax_tag(a, x) implies sem(f, upd(a, v, x), rho) == sem(f, a, rho) by {
                if rho.dom().contains(w) { assert(indep(rho[w], v)); }
            }
        }
        SymbolicBDD::Not(b) => {
            lemma_sem_indep(*b, v, rho);
            assert forall|a: Asg, x: bool| #[trigger] ax_tag(a, x) implies sem(f, upd(a, v, x), rho) == sem(f, a, rho) by {
                assert(sem(*b, upd(a, v, x), rho) == sem(*b, a, rho));
            }
        }
        SymbolicBDD::Quantifier(q, vs, b) => {
            lemma_sym_in(vs@, v);
            let r0 = rho.remove_keys(vs@.to_set());
            if !vs@.contains(v) {
                assert(r0.dom().contains(v) == rho.dom().contains(v));
                assert(rho_indep(r0, v));
                lemma_sem_indep(*b, v, r0);
            }
            assert forall|a: Asg, x: bool| #[trigger] ax_tag(a, x) implies sem(f, upd(a, v, x), rho) == sem(f, a, rho) by {
                lemma_semq_indep(q, vs@, *b, v, a, x, r0);
            }
        }
        SymbolicBDD::CountableConst(op, bs, n) => {
            assert forall|k: int| 0 <= k < bs@.len() implies sem_indep(#[trigger] bs@[k], v, rho) by {
                lemma_sem_indep(bs@[k], v, rho);
            }
            assert forall|a: Asg, x: bool| #[trigger] ax_tag(a, x) implies sem(f, upd(a, v, x), rho) == sem(f, a, rho) by {
                lemma_scount_indep(bs@, 0, v, a, x, rho);
            }
        }
        SymbolicBDD::CountableVariable(op, l, r) => {
            assert forall|k: int| 0 <= k < l@.len() implies sem_indep(#[trigger] l@[k], v, rho) by {
                lemma_sem_indep(l@[k], v, rho);
            }
            assert forall|k: int| 0 <= k < r@.len() implies sem_indep(#[trigger] r@[k], v, rho) by {
                lemma_sem_indep(r@[k], v, rho);
            }
            assert forall|a: Asg, x: bool| #[trigger] ax_tag(a, x) implies sem(f, upd(a, v, x), rho) == sem(f, a, rho) by {
                lemma_scount_indep(l@, 0, v, a, x, rho);
                lemma_scount_indep(r@, 0, v, a, x, rho);
            }
        }
        SymbolicBDD::Ite(c, t, e) => {
            lemma_sem_indep(*c, v, rho); lemma_sem_indep(*t, v, rho); lemma_sem_indep(*e, v, rho);
            assert forall|a: Asg, x: bool| #[trigger] ax_tag(a, x) implies sem(f, upd(a, v, x), rho) == sem(f, a, rho) by {
                assert(sem(*c, upd(a, v, x), rho) == sem(*c, a, rho));
                assert(sem(*t, upd(a, v, x), rho) == sem(*t, a, rho));
                assert(sem(*e, upd(a, v, x), rho) == sem(*e, a, rho));
            }
        }
        SymbolicBDD::BinaryOp(op, l, r) => {
            lemma_sem_indep(*l, v, rho); lemma_sem_indep(*r, v, rho);
            assert forall|a: Asg, x: bool| #[trigger] ax_tag(a, x) implies sem(f, upd(a, v, x), rho) == sem(f, a, rho) by {
                assert(sem(*l, upd(a, v, x), rho) == sem(*l, a, rho));
                assert(sem(*r, upd(a, v, x), rho) == sem(*r, a, rho));
            }
        }
        SymbolicBDD::FixedPoint(xx, i, t) => {
            assert forall|p: BDD| indep(p, v) implies sem_indep(*t, v, #[trigger] rho.insert(xx, p)) by {
                let r1 = rho.insert(xx, p);
                assert forall|k: Sym| r1.dom().contains(k) implies indep(#[trigger] r1[k], v) by {
                    if k != xx { assert(rho.dom().contains(k)); assert(indep(rho[k], v)); }
                }
                lemma_sem_indep(*t, v, r1);
            }
            assert forall|a: Asg, x: bool| #[trigger] ax_tag(a, x) implies sem(f, upd(a, v, x), rho) == sem(f, a, rho) by {
                // every result of the iteration is the last element of a trace, hence independent of v
                assert forall|y: BDD| fp_result(xx, i, *t, rho, y) implies #[trigger] eval(y, upd(a, v, x)) == eval(y, a) by {
                    let tr = choose|tr: Seq<BDD>| #[trigger] tr_tag(tr) && fp_trace(xx, i, *t, rho, tr) && tr[tr.len() - 1] == y && fp_step(xx, *t, rho, y, y);
                    lemma_fp_iterates_indep(xx, i, *t, rho, v, tr, tr.len() - 1);
                }
                if fp_sem(xx, i, *t, rho, upd(a, v, x)) {
                    let y = choose|y: BDD| fp_result(xx, i, *t, rho, y) && #[trigger] eval(y, upd(a, v, x));
                    assert(fp_result(xx, i, *t, rho, y) && eval(y, a));
                }
                if fp_sem(xx, i, *t, rho, a) {
                    let y = choose|y: BDD| fp_result(xx, i, *t, rho, y) && #[trigger] eval(y, a);
                    assert(fp_result(xx, i, *t, rho, y) && eval(y, upd(a, v, x)));
                }
            }
        }
    }
}

/// an ROBDD that does not depend on v does not test v
pub proof fn lemma_indep_not_occurs(r: BDD, v: Sym, lo: int)
    requires robdd(r, lo), indep(r, v)
    ensures !occurs(r, v)
    decreases r
{
    if r is Choice {
        let t = *r->0; let w = r->1; let f = *r->2;
        if w == v {
            assert forall|a: Asg| eval(t, a) == eval(f, a) by {
                lemma_indep(t, key(w) + 1, a, w, true);
                lemma_indep(f, key(w) + 1, a, w, false);
                assert(eval(r, upd(a, v, true)) == eval(r, a));
                assert(eval(r, upd(a, v, false)) == eval(r, a));
                assert(upd(a, v, true)(w));
                assert(!upd(a, v, false)(w));
            }
            assert(sem_eq(t, f));
            lemma_canon(t, f, key(w) + 1);
            assert(false);
        } else {
            assert forall|a: Asg, x: bool| #[trigger] eval(t, upd(a, v, x)) == eval(t, a) by {
                let a1 = upd(a, w, true);
                lemma_upd_comm(a, w, true, v, x);
                lemma_indep(t, key(w) + 1, upd(a, v, x), w, true);
                lemma_indep(t, key(w) + 1, a, w, true);
                assert(eval(r, upd(a1, v, x)) == eval(r, a1));
                assert(upd(a1, v, x)(w));
                assert(a1(w));
            }
            assert forall|a: Asg, x: bool| #[trigger] eval(f, upd(a, v, x)) == eval(f, a) by {
                let a1 = upd(a, w, false);
                lemma_upd_comm(a, w, false, v, x);
                lemma_indep(f, key(w) + 1, upd(a, v, x), w, false);
                lemma_indep(f, key(w) + 1, a, w, false);
                assert(eval(r, upd(a1, v, x)) == eval(r, a1));
                assert(!upd(a1, v, x)(w));
                assert(!a1(w));
            }
            lemma_indep_not_occurs(t, v, key(w) + 1);
            lemma_indep_not_occurs(f, v, key(w) + 1);
        }
    }
}

/// C09: the diagram the evaluator returns for f tests only variables that are free in f
pub proof fn lemma_result_only_free(f: SymbolicBDD, r: BDD, v: Sym)
    requires subtrees_ok(f, true), !free_in(f, v), robdd(r, 0), forall|a: Asg| #[trigger] eval(r, a) == sem(f, a, Map::<Sym, BDD>::empty())
    ensures !occurs(r, v)
{
    if fv(f, v) { lemma_fv_free(f, v); }
    lemma_result_only_fv(f, r, v);
}

/// the diagram the evaluator returns for f tests only variables that occur as a free variable leaf in f
pub proof fn lemma_result_only_fv(f: SymbolicBDD, r: BDD, v: Sym)
    requires subtrees_ok(f, true), !fv(f, v), robdd(r, 0), forall|a: Asg| #[trigger] eval(r, a) == sem(f, a, Map::<Sym, BDD>::empty())
    ensures !occurs(r, v)
{
    let e = Map::<Sym, BDD>::empty();
    lemma_sem_indep(f, v, e);
    assert forall|a: Asg, x: bool| #[trigger] eval(r, upd(a, v, x)) == eval(r, a) by {
        assert(ax_tag(a, x));
    }
    lemma_indep_not_occurs(r, v, 0);
}

// ================================================================ the remaining sentences of C04 as lemmas over the contracts

/// exq is "some re-assignment of the variables in vs makes b true"
pub proof fn lemma_exq_char(vs: Seq<Sym>, b: BDD, a: Asg)
    ensures exq(vs, b, a) <==> (exists|t: Asg| agree_outside(a, t, vs) && #[trigger] eval(b, t))
    decreases vs.len()
{
    if vs.len() == 0 {
        if exq(vs, b, a) { assert(agree_outside(a, a, vs) && eval(b, a)); }
        if exists|t: Asg| agree_outside(a, t, vs) && #[trigger] eval(b, t) {
            let t = choose|t: Asg| agree_outside(a, t, vs) && #[trigger] eval(b, t);
            assert forall|w: Sym| #[trigger] t(w) == a(w) by { assert(!vs.contains(w)); }
            assert(t =~= a);
        }
    } else {
        let v0 = vs[0];
        let rest = vs.subrange(1, vs.len() as int);
        lemma_exq_char(rest, b, upd(a, v0, true));
        lemma_exq_char(rest, b, upd(a, v0, false));
        if exq(vs, b, a) {
            let x = exq(rest, b, upd(a, v0, true));
            let a1 = upd(a, v0, x);
            let t = choose|t: Asg| agree_outside(a1, t, rest) && #[trigger] eval(b, t);
            assert forall|w: Sym| !vs.contains(w) implies #[trigger] t(w) == a(w) by {
                if rest.contains(w) {
                    let i = choose|i: int| 0 <= i < rest.len() && rest[i] == w;
                    assert(vs[i + 1] == w);
                }
                assert(w != v0) by { if w == v0 { assert(vs[0] == w); } }
            }
            assert(agree_outside(a, t, vs) && eval(b, t));
        }
        if exists|t: Asg| agree_outside(a, t, vs) && #[trigger] eval(b, t) {
            let t = choose|t: Asg| agree_outside(a, t, vs) && #[trigger] eval(b, t);
            let x = t(v0);
            let a1 = upd(a, v0, x);
            assert forall|w: Sym| !rest.contains(w) implies #[trigger] t(w) == a1(w) by {
                if w != v0 {
                    if vs.contains(w) {
                        let i = choose|i: int| 0 <= i < vs.len() && vs[i] == w;
                        assert(i > 0);
                        assert(rest[i - 1] == w);
                    }
                }
            }
            assert(agree_outside(a1, t, rest) && eval(b, t));
            assert(exq(rest, b, a1));
        }
    }
}

/// two assignments that agree on every variable tested in b give b the same value
pub proof fn lemma_eval_agree(b: BDD, a: Asg, t: Asg)
    requires forall|w: Sym| occurs(b, w) ==> #[trigger] a(w) == t(w)
    ensures eval(b, a) == eval(b, t)
    decreases b
{
    if b is Choice {
        let bt = *b->0; let bf = *b->2; let v = b->1;
        assert(occurs(b, v));
        assert forall|w: Sym| occurs(bt, w) implies #[trigger] a(w) == t(w) by { assert(occurs(b, w)); }
        assert forall|w: Sym| occurs(bf, w) implies #[trigger] a(w) == t(w) by { assert(occurs(b, w)); }
        lemma_eval_agree(bt, a, t);
        lemma_eval_agree(bf, a, t);
    }
}

/// C04: the result never depends on a variable of V
pub proof fn lemma_exists_indep(vs: Seq<Sym>, b: BDD, r: BDD, v: Sym)
    requires vs.contains(v), forall|a: Asg| #[trigger] eval(r, a) == exq(vs, b, a)
    ensures indep(r, v)
{
    assert forall|a: Asg, x: bool| #[trigger] eval(r, upd(a, v, x)) == eval(r, a) by {
        let a1 = upd(a, v, x);
        lemma_exq_char(vs, b, a);
        lemma_exq_char(vs, b, a1);
        assert forall|t: Asg| #[trigger] agree_outside(a, t, vs) == agree_outside(a1, t, vs) by {
            if agree_outside(a, t, vs) { assert forall|w: Sym| !vs.contains(w) implies #[trigger] t(w) == a1(w) by {} }
            if agree_outside(a1, t, vs) { assert forall|w: Sym| !vs.contains(w) implies #[trigger] t(w) == a(w) by { assert(t(w) == a1(w)); } }
        }
        if exq(vs, b, a) {
            let t = choose|t: Asg| agree_outside(a, t, vs) && #[trigger] eval(b, t);
            assert(agree_outside(a1, t, vs) && eval(b, t));
        }
        if exq(vs, b, a1) {
            let t = choose|t: Asg| agree_outside(a1, t, vs) && #[trigger] eval(b, t);
            assert(agree_outside(a, t, vs) && eval(b, t));
        }
    }
}

/// C04: the result is unaffected by the order or repetition of the variables in V (same set => same diagram)
pub proof fn lemma_exists_set(vs1: Seq<Sym>, vs2: Seq<Sym>, b: BDD, r1: BDD, r2: BDD)
    requires
        forall|w: Sym| vs1.contains(w) == vs2.contains(w),
        robdd(r1, 0), robdd(r2, 0),
        forall|a: Asg| #[trigger] eval(r1, a) == exq(vs1, b, a),
        forall|a: Asg| #[trigger] eval(r2, a) == exq(vs2, b, a),
    ensures r1 == r2
{
    assert forall|a: Asg| eval(r1, a) == eval(r2, a) by {
        lemma_exq_char(vs1, b, a);
        lemma_exq_char(vs2, b, a);
        if exq(vs1, b, a) {
            let t = choose|t: Asg| agree_outside(a, t, vs1) && #[trigger] eval(b, t);
            assert forall|w: Sym| !vs2.contains(w) implies #[trigger] t(w) == a(w) by { assert(!vs1.contains(w)); }
            assert(agree_outside(a, t, vs2) && eval(b, t));
        }
        if exq(vs2, b, a) {
            let t = choose|t: Asg| agree_outside(a, t, vs2) && #[trigger] eval(b, t);
            assert forall|w: Sym| !vs1.contains(w) implies #[trigger] t(w) == a(w) by { assert(!vs2.contains(w)); }
            assert(agree_outside(a, t, vs1) && eval(b, t));
        }
    }
    assert(sem_eq(r1, r2));
    lemma_canon(r1, r2, 0);
}

/// C04: exists(V, f) is f itself when V is empty or disjoint from the variables f depends on
pub proof fn lemma_exists_disjoint(vs: Seq<Sym>, b: BDD, r: BDD)
    requires
        forall|w: Sym| vs.contains(w) ==> !occurs(b, w),
        robdd(b, 0), robdd(r, 0),
        forall|a: Asg| #[trigger] eval(r, a) == exq(vs, b, a),
    ensures r == b
{
    assert forall|a: Asg| eval(r, a) == eval(b, a) by {
        lemma_exq_char(vs, b, a);
        if exq(vs, b, a) {
            let t = choose|t: Asg| agree_outside(a, t, vs) && #[trigger] eval(b, t);
            assert forall|w: Sym| occurs(b, w) implies #[trigger] a(w) == t(w) by { assert(!vs.contains(w)); }
            lemma_eval_agree(b, a, t);
        }
        if eval(b, a) { assert(agree_outside(a, a, vs) && eval(b, a)); }
    }
    assert(sem_eq(r, b));
    lemma_canon(r, b, 0);
}

/// C04: all(V, f) is "every re-assignment of the variables in V makes f true" (dual of lemma_exq_char)
pub proof fn lemma_allq_char(vs: Seq<Sym>, b: BDD, a: Asg)
    ensures allq(vs, b, a) <==> (forall|t: Asg| agree_outside(a, t, vs) ==> #[trigger] eval(b, t))
    decreases vs.len()
{
    if vs.len() == 0 {
        if allq(vs, b, a) {
            assert forall|t: Asg| agree_outside(a, t, vs) implies #[trigger] eval(b, t) by {
                assert forall|w: Sym| #[trigger] t(w) == a(w) by { assert(!vs.contains(w)); }
                assert(t =~= a);
            }
        }
        if forall|t: Asg| agree_outside(a, t, vs) ==> #[trigger] eval(b, t) { assert(agree_outside(a, a, vs)); }
    } else {
        let v0 = vs[0];
        let rest = vs.subrange(1, vs.len() as int);
        lemma_allq_char(rest, b, upd(a, v0, true));
        lemma_allq_char(rest, b, upd(a, v0, false));
        if allq(vs, b, a) {
            assert forall|t: Asg| agree_outside(a, t, vs) implies #[trigger] eval(b, t) by {
                let a1 = upd(a, v0, t(v0));
                assert forall|w: Sym| !rest.contains(w) implies #[trigger] t(w) == a1(w) by {
                    if w != v0 {
                        if vs.contains(w) {
                            let i = choose|i: int| 0 <= i < vs.len() && vs[i] == w;
                            assert(i > 0);
                            assert(rest[i - 1] == w);
                        }
                    }
                }
                assert(agree_outside(a1, t, rest));
            }
        }
        if forall|t: Asg| agree_outside(a, t, vs) ==> #[trigger] eval(b, t) {
            assert forall|x: bool| #[trigger] allq(rest, b, upd(a, v0, x)) by {
                let a1 = upd(a, v0, x);
                assert forall|t: Asg| agree_outside(a1, t, rest) implies #[trigger] eval(b, t) by {
                    assert forall|w: Sym| !vs.contains(w) implies #[trigger] t(w) == a(w) by {
                        if rest.contains(w) {
                            let i = choose|i: int| 0 <= i < rest.len() && rest[i] == w;
                            assert(vs[i + 1] == w);
                        }
                        assert(w != v0) by { if w == v0 { assert(vs[0] == w); } }
                    }
                    assert(agree_outside(a, t, vs));
                }
            }
            assert(allq(rest, b, upd(a, v0, true)) && allq(rest, b, upd(a, v0, false)));
        }
    }
}

// ================================================================ Kleene: least / greatest fixed point for monotone bodies (C06)

pub open spec fn leq(p: BDD, q: BDD) -> bool { forall|a: Asg| eval(p, a) ==> #[trigger] eval(q, a) }

/// the body t is monotone in x: larger value of x, larger value of t
pub open spec fn fp_mono(x: Sym, t: SymbolicBDD, rho: Rho) -> bool {
    forall|p: BDD, q: BDD, p2: BDD, q2: BDD| leq(p, q) && #[trigger] fp_step(x, t, rho, p, p2) && #[trigger] fp_step(x, t, rho, q, q2) ==> leq(p2, q2)
}

pub proof fn lemma_lfp_below(x: Sym, t: SymbolicBDD, rho: Rho, tr: Seq<BDD>, k: int, z: BDD, z2: BDD)
    requires fp_trace(x, false, t, rho, tr), 0 <= k < tr.len(), fp_mono(x, t, rho), fp_step(x, t, rho, z, z2), leq(z2, z)
    ensures leq(tr[k], z)
    decreases k
{
    if k > 0 {
        lemma_lfp_below(x, t, rho, tr, k - 1, z, z2);
        assert(fp_step(x, t, rho, tr[k - 1], tr[k - 1 + 1]));
        assert(leq(tr[k], z2));
        assert forall|a: Asg| eval(tr[k], a) implies #[trigger] eval(z, a) by { assert(eval(z2, a)); }
    }
}

/// `lfp X # T` (first stable iterate from false) is a fixed point and lies below every pre-fixed point z (T[X:=z] <= z)
pub proof fn lemma_lfp_least(x: Sym, t: SymbolicBDD, rho: Rho, y: BDD, z: BDD, z2: BDD)
    requires fp_result(x, false, t, rho, y), fp_mono(x, t, rho), fp_step(x, t, rho, z, z2), leq(z2, z)
    ensures fp_step(x, t, rho, y, y), leq(y, z)
{
    let tr = choose|tr: Seq<BDD>| #[trigger] tr_tag(tr) && fp_trace(x, false, t, rho, tr) && tr[tr.len() - 1] == y && fp_step(x, t, rho, y, y);
    lemma_lfp_below(x, t, rho, tr, tr.len() - 1, z, z2);
}

pub proof fn lemma_gfp_above(x: Sym, t: SymbolicBDD, rho: Rho, tr: Seq<BDD>, k: int, z: BDD, z2: BDD)
    requires fp_trace(x, true, t, rho, tr), 0 <= k < tr.len(), fp_mono(x, t, rho), fp_step(x, t, rho, z, z2), leq(z, z2)
    ensures leq(z, tr[k])
    decreases k
{
    if k > 0 {
        lemma_gfp_above(x, t, rho, tr, k - 1, z, z2);
        assert(fp_step(x, t, rho, tr[k - 1], tr[k - 1 + 1]));
        assert(leq(z2, tr[k]));
        assert forall|a: Asg| eval(z, a) implies #[trigger] eval(tr[k], a) by { assert(eval(z2, a)); }
    }
}

/// `gfp X # T` (first stable iterate from true) is a fixed point and lies above every post-fixed point z (z <= T[X:=z])
pub proof fn lemma_gfp_greatest(x: Sym, t: SymbolicBDD, rho: Rho, y: BDD, z: BDD, z2: BDD)
    requires fp_result(x, true, t, rho, y), fp_mono(x, t, rho), fp_step(x, t, rho, z, z2), leq(z, z2)
    ensures fp_step(x, t, rho, y, y), leq(z, y)
{
    let tr = choose|tr: Seq<BDD>| #[trigger] tr_tag(tr) && fp_trace(x, true, t, rho, tr) && tr[tr.len() - 1] == y && fp_step(x, t, rho, y, y);
    lemma_gfp_above(x, t, rho, tr, tr.len() - 1, z, z2);
}

// ================================================================ the table printers (C09 / C12, src/bin/rsbdd.rs)

/// every variable the diagram tests has a column (< n) in the formula's free-variable table
pub open spec fn cols_ok(b: BDD, p: ParsedFormula, n: int) -> bool {
    forall|v: Sym| occurs(b, v) ==> (#[trigger] v.id) < p.raw2free@.len() && p.raw2free@[v.id as int] is Some && p.raw2free@[v.id as int]->0 < n
}

/// what main() must establish before printing (it is not verified, A15): the diagram tests only free variables of the
/// formula that are in its variable list — then every node has a column inside the row vector
pub proof fn lemma_cols_ok(p: ParsedFormula, r: BDD)
    requires
        table_ok(p.vars@, p.bdd, p.raw2free@, p.vars@.len() as int),
        p.free_vars@ == free_prefix(p.vars@, p.bdd, p.vars@.len() as int),
        forall|v: Sym| occurs(r, v) ==> free_in(p.bdd, v) && p.vars@.contains(v),
    ensures cols_ok(r, p, p.free_vars@.len() as int)
{
    assert forall|v: Sym| occurs(r, v) implies (#[trigger] v.id) < p.raw2free@.len() && p.raw2free@[v.id as int] is Some
        && p.raw2free@[v.id as int]->0 < p.free_vars@.len() by {
        let k = choose|k: int| 0 <= k < p.vars@.len() && p.vars@[k] == v;
        assert(p.vars@[k].id < p.raw2free@.len());
        lemma_free_prefix_mono(p.vars@, p.bdd, k + 1, p.vars@.len() as int);
        assert(free_prefix(p.vars@, p.bdd, k + 1).len() == free_prefix(p.vars@, p.bdd, k).len() + 1);
    }
}

pub proof fn lemma_free_prefix_mono(vs: Seq<Sym>, f: SymbolicBDD, i: int, j: int)
    requires 0 <= i <= j <= vs.len()
    ensures free_prefix(vs, f, i).len() <= free_prefix(vs, f, j).len()
    decreases j - i
{
    if i < j { lemma_free_prefix_mono(vs, f, i, j - 1); }
}

// ================================================================ the printed truth table as a partition (C10)
// The rows a printer emits are recorded in a ghost output trace (one entry per call of the line formatter); the
// property is stated over that trace.  A total assignment of the table's COLUMNS induces a variable assignment through
// the formula's column table (to_free_index, C11).

pub type Cells = Seq<TruthTableEntry>;
pub type ColAsg = spec_fn(int) -> bool;
pub type Rows = Seq<(Cells, BDD)>;

pub open spec fn col(p: ParsedFormula, v: Sym) -> int { p.raw2free@[v.id as int]->0 as int }

pub open spec fn of_cols(p: ParsedFormula, ca: ColAsg) -> Asg { |v: Sym| ca(col(p, v)) }

/// the total column assignment ca lies in the partial assignment `cells`
pub open spec fn covers(cells: Cells, ca: ColAsg) -> bool {
    forall|j: int| 0 <= j < cells.len() ==> ((#[trigger] cells[j]) is True ==> ca(j)) && (cells[j] is False ==> !ca(j))
}

pub open spec fn extends(cells: Cells, base: Cells) -> bool {
    cells.len() == base.len() && forall|j: int| 0 <= j < base.len() && !((#[trigger] base[j]) is Any) ==> cells[j] == base[j]
}

/// two partial assignments that no total assignment satisfies together
pub open spec fn clash(x: Cells, y: Cells) -> bool {
    exists|j: int| 0 <= j < x.len() && j < y.len() && ((#[trigger] x[j] is True && y[j] is False) || (x[j] is False && y[j] is True))
}

pub open spec fn filter_ok(filter: TruthTableEntry, val: bool) -> bool {
    filter is Any || (filter is True && val) || (filter is False && !val)
}

/// no variable the diagram still tests has been given a value in the row
pub open spec fn fresh(b: BDD, p: ParsedFormula, cells: Cells) -> bool {
    forall|v: Sym| #[trigger] occurs(b, v) ==> cells[col(p, v)] is Any
}

/// distinct variables of the diagram have distinct columns
pub open spec fn cols_inj(b: BDD, p: ParsedFormula) -> bool {
    forall|v: Sym, w: Sym| #[trigger] occurs(b, v) && #[trigger] occurs(b, w) && col(p, v) == col(p, w) ==> v.id == w.id
}

pub open spec fn rows_wf(out: Rows, base: Cells, filter: TruthTableEntry) -> bool {
    forall|i: int| 0 <= i < out.len() ==> extends((#[trigger] out[i]).0, base) && !(out[i].1 is Choice) && filter_ok(filter, out[i].1 is True)
}

pub open spec fn rows_sound(out: Rows, b: BDD, p: ParsedFormula) -> bool {
    forall|i: int, ca: ColAsg| 0 <= i < out.len() && #[trigger] covers(out[i].0, ca) ==> eval(b, of_cols(p, ca)) == (out[i].1 is True)
}

pub open spec fn rows_disjoint(out: Rows) -> bool {
    forall|i: int, j: int| 0 <= i < j < out.len() ==> clash((#[trigger] out[i]).0, (#[trigger] out[j]).0)
}

pub open spec fn rows_cover(out: Rows, b: BDD, p: ParsedFormula, base: Cells, filter: TruthTableEntry) -> bool {
    forall|ca: ColAsg| #[trigger] covers(base, ca) && filter_ok(filter, eval(b, of_cols(p, ca)))
        ==> exists|i: int| 0 <= i < out.len() && #[trigger] covers(out[i].0, ca)
}

pub proof fn lemma_occurs_ge(b: BDD, lo: int, v: Sym)
    requires robdd(b, lo), occurs(b, v)
    ensures key(v) >= lo
    decreases b
{
    if b is Choice {
        let t = *b->0; let f = *b->2;
        if occurs(t, v) { lemma_occurs_ge(t, key(b->1) + 1, v); }
        if occurs(f, v) { lemma_occurs_ge(f, key(b->1) + 1, v); }
    }
}

/// the obligations of the two recursive calls at a test node: the child tests only later variables, whose columns are
/// still unassigned after the node's own column has been set
pub proof fn lemma_table_child(b: BDD, p: ParsedFormula, base: Cells, child: BDD, x: TruthTableEntry)
    requires
        b is Choice, child == *b->0 || child == *b->2,
        robdd(b, 0), cols_ok(b, p, base.len() as int), cols_inj(b, p), fresh(b, p, base),
    ensures
        robdd(child, 0), cols_ok(child, p, base.len() as int), cols_inj(child, p),
        fresh(child, p, base.update(col(p, b->1), x)),
        0 <= col(p, b->1) < base.len(), base[col(p, b->1)] is Any,
{
    let s = b->1;
    assert(occurs(b, s));
    lemma_weaken(child, key(s) + 1, 0);
    assert forall|v: Sym| #[trigger] occurs(child, v) implies occurs(b, v) by {}
    assert forall|v: Sym, w: Sym| #[trigger] occurs(child, v) && #[trigger] occurs(child, w) && col(p, v) == col(p, w) implies v.id == w.id by {
        assert(occurs(b, v) && occurs(b, w));
    }
    assert forall|v: Sym| #[trigger] occurs(child, v) implies 0 <= col(p, v) < base.len() && base.update(col(p, s), x)[col(p, v)] is Any by {
        assert(occurs(b, v));
        lemma_occurs_ge(child, key(s) + 1, v);
    }
}

/// the rows of the false branch followed by the rows of the true branch are a faithful table of the test node
pub proof fn lemma_table_choice(o1: Rows, o2: Rows, b: BDD, p: ParsedFormula, base: Cells, filter: TruthTableEntry)
    requires
        b is Choice,
        0 <= col(p, b->1) < base.len(), base[col(p, b->1)] is Any,
        rows_wf(o1, base.update(col(p, b->1), TruthTableEntry::False), filter),
        rows_sound(o1, *b->2, p), rows_disjoint(o1),
        rows_cover(o1, *b->2, p, base.update(col(p, b->1), TruthTableEntry::False), filter),
        rows_wf(o2, base.update(col(p, b->1), TruthTableEntry::True), filter),
        rows_sound(o2, *b->0, p), rows_disjoint(o2),
        rows_cover(o2, *b->0, p, base.update(col(p, b->1), TruthTableEntry::True), filter),
    ensures
        rows_wf(o1 + o2, base, filter), rows_sound(o1 + o2, b, p), rows_disjoint(o1 + o2),
        rows_cover(o1 + o2, b, p, base, filter),
{
    let s = b->1; let c = col(p, s); let out = o1 + o2;
    let bf = base.update(c, TruthTableEntry::False); let bt = base.update(c, TruthTableEntry::True);
    assert forall|i: int| 0 <= i < out.len() implies extends((#[trigger] out[i]).0, base) && !(out[i].1 is Choice) && filter_ok(filter, out[i].1 is True)
        && out[i].0[c] == (if i < o1.len() { TruthTableEntry::False } else { TruthTableEntry::True }) by {
        if i < o1.len() {
            assert(out[i] == o1[i]);
            assert(bf[c] == TruthTableEntry::False);
            assert forall|j: int| 0 <= j < base.len() && !((#[trigger] base[j]) is Any) implies o1[i].0[j] == base[j] by { assert(bf[j] == base[j]); }
        } else {
            assert(out[i] == o2[i - o1.len()]);
            assert(bt[c] == TruthTableEntry::True);
            assert forall|j: int| 0 <= j < base.len() && !((#[trigger] base[j]) is Any) implies o2[i - o1.len()].0[j] == base[j] by { assert(bt[j] == base[j]); }
        }
    }
    assert forall|i: int, ca: ColAsg| 0 <= i < out.len() && #[trigger] covers(out[i].0, ca) implies eval(b, of_cols(p, ca)) == (out[i].1 is True) by {
        assert(out[i].0[c] is True || out[i].0[c] is False);
        assert(of_cols(p, ca)(s) == ca(c));
        if i < o1.len() { assert(out[i] == o1[i]); assert(!ca(c)); } else { assert(out[i] == o2[i - o1.len()]); assert(ca(c)); }
    }
    assert forall|i: int, j: int| 0 <= i < j < out.len() implies clash((#[trigger] out[i]).0, (#[trigger] out[j]).0) by {
        if j < o1.len() { assert(out[i] == o1[i] && out[j] == o1[j]); }
        else if i >= o1.len() { assert(out[i] == o2[i - o1.len()] && out[j] == o2[j - o1.len()]); }
        else {
            assert(extends(out[i].0, base) && extends(out[j].0, base));
            assert(out[i].0[c] is False && out[j].0[c] is True);
        }
    }
    assert forall|ca: ColAsg| #[trigger] covers(base, ca) && filter_ok(filter, eval(b, of_cols(p, ca)))
        implies exists|i: int| 0 <= i < out.len() && #[trigger] covers(out[i].0, ca) by {
        assert(of_cols(p, ca)(s) == ca(c));
        if ca(c) {
            assert(covers(bt, ca)) by { assert forall|j: int| 0 <= j < bt.len() implies ((#[trigger] bt[j]) is True ==> ca(j)) && (bt[j] is False ==> !ca(j)) by { if j != c { assert(bt[j] == base[j]); } } }
            let i = choose|i: int| 0 <= i < o2.len() && #[trigger] covers(o2[i].0, ca);
            assert(out[i + o1.len()] == o2[i]);
        } else {
            assert(covers(bf, ca)) by { assert forall|j: int| 0 <= j < bf.len() implies ((#[trigger] bf[j]) is True ==> ca(j)) && (bf[j] is False ==> !ca(j)) by { if j != c { assert(bf[j] == base[j]); } } }
            let i = choose|i: int| 0 <= i < o1.len() && #[trigger] covers(o1[i].0, ca);
            assert(out[i] == o1[i]);
        }
    }
}

/// a single row for a leaf (or none, when the filter rejects the leaf) is a faithful table of the leaf
pub proof fn lemma_table_leaf(out: Rows, b: BDD, p: ParsedFormula, base: Cells, filter: TruthTableEntry)
    requires
        !(b is Choice),
        (filter_ok(filter, b is True) && out == seq![(base, b)]) || (!filter_ok(filter, b is True) && out == Seq::<(Cells, BDD)>::empty()),
    ensures
        rows_wf(out, base, filter), rows_sound(out, b, p), rows_disjoint(out), rows_cover(out, b, p, base, filter),
{
    if filter_ok(filter, b is True) {
        assert(out[0] == (base, b));
        assert forall|ca: ColAsg| #[trigger] covers(base, ca) && filter_ok(filter, eval(b, of_cols(p, ca)))
            implies exists|i: int| 0 <= i < out.len() && #[trigger] covers(out[i].0, ca) by { assert(covers(out[0].0, ca)); }
    }
}

/// what main() must establish (A15) follows from the constructor's postcondition: distinct free variables get distinct columns
pub proof fn lemma_cols_inj(p: ParsedFormula, r: BDD)
    requires
        table_ok(p.vars@, p.bdd, p.raw2free@, p.vars@.len() as int),
        distinct_ids(p.vars@),
        p.vars@.len() <= usize::MAX,
        forall|v: Sym| occurs(r, v) ==> free_in(p.bdd, v) && p.vars@.contains(v),
    ensures cols_inj(r, p)
{
    assert forall|v: Sym, w: Sym| #[trigger] occurs(r, v) && #[trigger] occurs(r, w) && col(p, v) == col(p, w) implies v.id == w.id by {
        let i = choose|i: int| 0 <= i < p.vars@.len() && p.vars@[i] == v;
        let j = choose|j: int| 0 <= j < p.vars@.len() && p.vars@[j] == w;
        assert(p.vars@[i].id < p.raw2free@.len() && p.vars@[j].id < p.raw2free@.len());
        lemma_free_prefix_len(p.vars@, p.bdd, i);
        lemma_free_prefix_len(p.vars@, p.bdd, j);
        if i < j {
            lemma_free_prefix_mono(p.vars@, p.bdd, i + 1, j);
            assert(free_prefix(p.vars@, p.bdd, i + 1).len() == free_prefix(p.vars@, p.bdd, i).len() + 1);
            lemma_free_prefix_len(p.vars@, p.bdd, j);
        } else if j < i {
            lemma_free_prefix_mono(p.vars@, p.bdd, j + 1, i);
            assert(free_prefix(p.vars@, p.bdd, j + 1).len() == free_prefix(p.vars@, p.bdd, j).len() + 1);
            lemma_free_prefix_len(p.vars@, p.bdd, i);
        }
    }
}

/// the diagram behind a borrowed pointer (spelled as a spec function: `**r` in a ghost `let` is rejected as a move out of an Rc)
pub open spec fn pointee(r: &Rc<BDD>) -> BDD { **r }

// ---- the `-v` listing: one line of names per satisfying row
pub type Names = Seq<Seq<char>>;
pub type Lines = Seq<(Cells, Names)>;

pub open spec fn str_views(s: Seq<String>) -> Names { Seq::new(s.len(), |i: int| s[i]@) }

/// the names a row is printed as: a column that is True by its label, a column that is Any by its label followed by `*`, a False column not at all
pub open spec fn names_of(cells: Cells, labels: Names, k: int) -> Names
    decreases k
{
    if k <= 0 { Seq::empty() } else {
        let p = names_of(cells, labels, k - 1);
        if cells[k - 1] is True { p.push(labels[k - 1]) } else if cells[k - 1] is Any { p.push(labels[k - 1] + seq!['*']) } else { p }
    }
}

pub open spec fn true_rows(ls: Lines) -> Rows { Seq::new(ls.len(), |i: int| (ls[i].0, BDD::True)) }

pub open spec fn lines_named(ls: Lines, labels: Names) -> bool {
    forall|i: int| 0 <= i < ls.len() ==> (#[trigger] ls[i]).1 == names_of(ls[i].0, labels, ls[i].0.len() as int)
}

pub proof fn lemma_true_rows_concat(a: Lines, b: Lines)
    ensures true_rows(a + b) == true_rows(a) + true_rows(b)
{
    assert(true_rows(a + b) =~= true_rows(a) + true_rows(b));
}

pub open spec fn hi(b: BDD) -> BDD { *b->0 }
pub open spec fn lo(b: BDD) -> BDD { *b->2 }

/// both recursive calls of a printer at a test node meet the printer's precondition
pub proof fn lemma_table_children(b: BDD, p: ParsedFormula, base: Cells)
    requires
        b is Choice, robdd(b, 0), cols_ok(b, p, base.len() as int), cols_inj(b, p), fresh(b, p, base),
    ensures
        robdd(lo(b), 0), cols_ok(lo(b), p, base.len() as int), cols_inj(lo(b), p),
        fresh(lo(b), p, base.update(col(p, b->1), TruthTableEntry::False)),
        robdd(hi(b), 0), cols_ok(hi(b), p, base.len() as int), cols_inj(hi(b), p),
        fresh(hi(b), p, base.update(col(p, b->1), TruthTableEntry::True)),
        0 <= col(p, b->1) < base.len(), base[col(p, b->1)] is Any,
{
    lemma_table_child(b, p, base, lo(b), TruthTableEntry::False);
    lemma_table_child(b, p, base, hi(b), TruthTableEntry::True);
}

// ---- one row per root-to-leaf path (C10 mechanism; C07: `-m -t` prints exactly one row)

/// number of paths of b that end in a leaf the filter admits
pub open spec fn leaf_rows(b: BDD, filter: TruthTableEntry) -> nat
    decreases b
{
    match b {
        BDD::Choice(t, v, f) => leaf_rows(*f, filter) + leaf_rows(*t, filter),
        _ => if filter_ok(filter, b is True) { 1 } else { 0 },
    }
}

/// a cube (what `model` returns for a satisfiable diagram) has exactly one path to the true leaf
pub proof fn lemma_cube_one_row(b: BDD)
    requires cube(b)
    ensures leaf_rows(b, TruthTableEntry::True) == 1
    decreases b
{
    if b is Choice {
        let t = *b->0; let f = *b->2;
        assert(leaf_rows(BDD::False, TruthTableEntry::True) == 0);
        assert(leaf_rows(b, TruthTableEntry::True) == leaf_rows(f, TruthTableEntry::True) + leaf_rows(t, TruthTableEntry::True));
        if f == BDD::False && cube(t) { lemma_cube_one_row(t); } else { assert(t == BDD::False && cube(f)); lemma_cube_one_row(f); }
    }
}

/// number of emitted rows whose result column is True
pub open spec fn sat_rows(out: Rows) -> nat
    decreases out.len()
{
    if out.len() == 0 { 0 } else { sat_rows(out.drop_last()) + (if out.last().1 is True { 1nat } else { 0nat }) }
}

pub proof fn lemma_sat_rows_concat(a: Rows, b: Rows)
    ensures sat_rows(a + b) == sat_rows(a) + sat_rows(b)
    decreases b.len()
{
    if b.len() == 0 {
        assert(a + b =~= a);
    } else {
        assert((a + b).drop_last() =~= a + b.drop_last());
        assert((a + b).last() == b.last());
        lemma_sat_rows_concat(a, b.drop_last());
    }
}

pub proof fn lemma_sat_rows_one(r: (Cells, BDD))
    ensures sat_rows(seq![r]) == (if r.1 is True { 1nat } else { 0nat }), sat_rows(Seq::<(Cells, BDD)>::empty()) == 0
{
    let s1 = seq![r];
    assert(s1.len() == 1);
    assert(s1.drop_last() =~= Seq::<(Cells, BDD)>::empty());
    assert(s1.last() == r);
    assert(sat_rows(Seq::<(Cells, BDD)>::empty()) == 0);
    assert(sat_rows(s1) == sat_rows(s1.drop_last()) + (if s1.last().1 is True { 1nat } else { 0nat }));
}

/// the satisfying rows a filter lets through: all True-leaf paths unless the filter is False
pub open spec fn sat_paths(b: BDD, filter: TruthTableEntry) -> nat {
    if filter is False { 0 } else { leaf_rows(b, TruthTableEntry::True) }
}

/// C07, CLI sentence, over the contracts of `model` and of the table printer: printing the model of a satisfiable
/// diagram (any filter but False) emits exactly one satisfying row, printing the model of an unsatisfiable one emits none
pub proof fn lemma_model_prints_one_row(m: BDD, out: Rows, filter: TruthTableEntry)
    requires
        m == BDD::False || cube(m),
        !(filter is False),
        sat_rows(out) == sat_paths(m, filter),
    ensures
        sat_rows(out) == (if m == BDD::False { 0nat } else { 1nat }),
{
    if m != BDD::False { lemma_cube_one_row(m); }
}

// ---- the constructor's glue: tokenizer -> parser / variable list (the tokenizer itself is assumed, A9; extract_vars is under contract)

/// the tokenizer as a function of the input stream and the ordering handed to it (None = it reports an error)
pub uninterp spec fn lex_of(contents: DynBufRead, ord: Option<Vec<NamedSymbol>>) -> Option<Seq<SymbolicBDDToken>>;

/// the symbol of a Var token
pub open spec fn var_sym(t: SymbolicBDDToken) -> Option<Sym> {
    match t { SymbolicBDDToken::Var(v) => Some(v), _ => None }
}
/// the symbols of the Var tokens, in order of appearance
pub open spec fn var_syms(toks: Seq<SymbolicBDDToken>) -> Seq<Sym>
    decreases toks.len()
{
    if toks.len() == 0 { Seq::empty() } else {
        match var_sym(toks.last()) { Some(v) => var_syms(toks.drop_last()).push(v), None => var_syms(toks.drop_last()) }
    }
}
/// the variable list extract_vars derives from a token sequence: every variable once, in order of first appearance
pub open spec fn vars_of(toks: Seq<SymbolicBDDToken>) -> Seq<Sym> {
    unique_of(var_syms(toks))
}

pub proof fn lemma_unique_of(s: Seq<Sym>)
    ensures
        distinct_ids(unique_of(s)),
        forall|x: Sym| #[trigger] unique_of(s).contains(x) <==> s.contains(x),
    decreases s.len()
{
    if s.len() > 0 {
        let p = s.drop_last();
        lemma_unique_of(p);
        let r = unique_of(p);
        let u = unique_of(s);
        assert forall|x: Sym| #[trigger] u.contains(x) <==> s.contains(x) by {
            if s.contains(x) {
                let i = choose|i: int| 0 <= i < s.len() && s[i] == x;
                if i < s.len() - 1 { assert(p[i] == x); assert(p.contains(x)); assert(r.contains(x)); }
                if r.contains(x) {
                    let j = choose|j: int| 0 <= j < r.len() && r[j] == x;
                    if !r.contains(s.last()) { assert(u[j] == x); }
                } else {
                    assert(x == s.last());
                    assert(u == r.push(x));
                    assert(u[r.len() as int] == x);
                }
            }
            if u.contains(x) {
                let j = choose|j: int| 0 <= j < u.len() && u[j] == x;
                if j < r.len() {
                    assert(r[j] == x); assert(r.contains(x)); assert(p.contains(x));
                    let i = choose|i: int| 0 <= i < p.len() && p[i] == x;
                    assert(s[i] == x);
                } else {
                    assert(x == s.last());
                    assert(s[s.len() - 1] == x);
                }
            }
        }
        assert(distinct_ids(u)) by {
            if !r.contains(s.last()) {
                assert forall|i: int, j: int| 0 <= i < u.len() && 0 <= j < u.len() && i != j implies (#[trigger] u[i]).id != (#[trigger] u[j]).id by {
                    if i < r.len() && j < r.len() { assert(u[i] == r[i] && u[j] == r[j]); }
                    else if i < r.len() { assert(u[i] == r[i]); assert(r.contains(r[i])); if u[i].id == u[j].id { assert(u[i] == u[j]); } }
                    else { assert(u[j] == r[j]); assert(r.contains(r[j])); if u[i].id == u[j].id { assert(u[i] == u[j]); } }
                }
            }
        }
    }
}

pub proof fn lemma_var_syms(toks: Seq<SymbolicBDDToken>)
    ensures
        forall|i: int| 0 <= i < toks.len() && (#[trigger] toks[i]) is Var ==> var_syms(toks).contains(toks[i]->Var_0),
        forall|x: Sym| #[trigger] var_syms(toks).contains(x) ==> exists|i: int| 0 <= i < toks.len() && #[trigger] toks[i] == SymbolicBDDToken::Var(x),
    decreases toks.len()
{
    if toks.len() > 0 {
        let p = toks.drop_last();
        lemma_var_syms(p);
        let vp = var_syms(p);
        let vs = var_syms(toks);
        assert forall|i: int| 0 <= i < toks.len() && (#[trigger] toks[i]) is Var implies vs.contains(toks[i]->Var_0) by {
            if i < p.len() {
                assert(p[i] == toks[i]);
                let j = choose|j: int| 0 <= j < vp.len() && vp[j] == toks[i]->Var_0;
                assert(vs[j] == vp[j]);
            } else {
                assert(vs[vp.len() as int] == toks[i]->Var_0);
            }
        }
        assert forall|x: Sym| #[trigger] vs.contains(x) implies exists|i: int| 0 <= i < toks.len() && #[trigger] toks[i] == SymbolicBDDToken::Var(x) by {
            let j = choose|j: int| 0 <= j < vs.len() && vs[j] == x;
            if j < vp.len() {
                assert(vp[j] == x); assert(vp.contains(x));
                let i = choose|i: int| 0 <= i < p.len() && #[trigger] p[i] == SymbolicBDDToken::Var(x);
                assert(toks[i] == SymbolicBDDToken::Var(x));
            } else {
                assert(toks[toks.len() - 1] == SymbolicBDDToken::Var(x));
            }
        }
    }
}

/// filter_map with the Var-symbol picker is var_syms
pub proof fn lemma_somes_var_syms(o: Seq<Option<Sym>>, toks: Seq<SymbolicBDDToken>)
    requires o.len() == toks.len(), forall|i: int| 0 <= i < toks.len() ==> #[trigger] o[i] == var_sym(toks[i]),
    ensures somes(o) == var_syms(toks),
    decreases toks.len()
{
    if toks.len() > 0 {
        lemma_somes_var_syms(o.drop_last(), toks.drop_last());
    }
}

pub open spec fn same_elements(a: Seq<Sym>, b: Seq<Sym>) -> bool {
    a.to_multiset() == b.to_multiset()
}

/// what the constructor must return for a given input: an error if the text does not lex or does not parse, otherwise
/// the tree the grammar assigns to the token sequence, the variables of exactly that sequence, and the caller's environment
pub open spec fn constructed(r: Result<ParsedFormula, io::Error>, contents: DynBufRead, ord: Option<Vec<NamedSymbol>>) -> bool {
    match lex_of(contents, ord) {
        None => r is Err,
        Some(ts) => match p_formula(ts) {
            None => r is Err,
            Some(ast) => r is Ok && repr(r->Ok_0.bdd, ast) && same_elements(r->Ok_0.vars@, vars_of(ts)),
        },
    }
}

// ---- main() of the command-line tool: the data flow from the parsed formula to the printers (C01 C07 C09 C10 C12)

/// r is the (ordered, reduced) diagram of the formula p holds
pub open spec fn denotes(r: BDD, p: ParsedFormula) -> bool {
    robdd(r, 0) && forall|a: Asg| #[trigger] eval(r, a) == sem(p.bdd, a, Map::<Sym, BDD>::empty())
}

/// r tests only free variables of p's formula, and they are in p's variable list
pub open spec fn supported(r: BDD, p: ParsedFormula) -> bool {
    forall|v: Sym| #[trigger] occurs(r, v) ==> free_in(p.bdd, v) && p.vars@.contains(v)
}

pub open spec fn all_any(row: Cells) -> bool {
    forall|j: int| 0 <= j < row.len() ==> (#[trigger] row[j]) is Any
}

// [A16] a Vec has at most usize::MAX elements
#[verifier::external_body]
pub proof fn axiom_vec_len_sym(s: &Vec<NamedSymbol>)
    ensures s@.len() <= usize::MAX
{}

/// what the constructor guarantees about the column table (its postconditions vars / free_vars / table / plain)
pub open spec fn well_built(p: ParsedFormula) -> bool {
    &&& sorted_ids(p.vars@) && distinct_ids(p.vars@)
    &&& p.free_vars@ == free_prefix(p.vars@, p.bdd, p.vars@.len() as int)
    &&& table_ok(p.vars@, p.bdd, p.raw2free@, p.vars@.len() as int)
    &&& subtrees_ok(p.bdd, true) && subtrees_ok(p.bdd, false)
}

/// every free variable leaf of the formula is in its variable list (postcondition `names` of the constructors)
pub open spec fn vars_cover(p: ParsedFormula) -> bool {
    forall|v: Sym| #[trigger] fv(p.bdd, v) ==> p.vars@.contains(v)
}

/// the printers' preconditions for any diagram over the formula's free variables and an all-Any row of the right length
pub proof fn lemma_printable(p: ParsedFormula, r: BDD, row: Cells)
    requires
        well_built(p), robdd(r, 0), supported(r, p),
        row.len() == p.free_vars@.len(), all_any(row), p.vars@.len() <= usize::MAX,
    ensures
        cols_ok(r, p, row.len() as int), cols_inj(r, p), fresh(r, p, row),
{
    lemma_cols_ok(p, r);
    lemma_cols_inj(p, r);
    assert forall|v: Sym| #[trigger] occurs(r, v) implies row[col(p, v)] is Any by {
        assert(0 <= col(p, v) < row.len());
    }
}

/// with an all-Any start row the printed rows say, for every total assignment of the columns, what the FORMULA evaluates to
pub open spec fn table_of_formula(out: Rows, p: ParsedFormula, filter: TruthTableEntry) -> bool {
    &&& forall|i: int| 0 <= i < out.len() ==> filter_ok(filter, (#[trigger] out[i]).1 is True)
    &&& forall|i: int, ca: ColAsg| 0 <= i < out.len() && #[trigger] covers(out[i].0, ca)
            ==> sem(p.bdd, of_cols(p, ca), Map::<Sym, BDD>::empty()) == (out[i].1 is True)
    &&& rows_disjoint(out)
    &&& forall|ca: ColAsg| filter_ok(filter, #[trigger] sem(p.bdd, of_cols(p, ca), Map::<Sym, BDD>::empty()))
            ==> exists|i: int| 0 <= i < out.len() && #[trigger] covers(out[i].0, ca)
}

pub proof fn lemma_table_of_formula(out: Rows, r: BDD, p: ParsedFormula, filter: TruthTableEntry)
    requires
        denotes(r, p),
        rows_sound(out, r, p), rows_disjoint(out),
        exists|row: Cells| all_any(row) && #[trigger] rows_cover(out, r, p, row, filter),
        exists|row: Cells| #[trigger] rows_wf(out, row, filter),
    ensures table_of_formula(out, p, filter)
{
    let row0 = choose|row: Cells| #[trigger] rows_wf(out, row, filter);
    assert forall|i: int| 0 <= i < out.len() implies filter_ok(filter, (#[trigger] out[i]).1 is True) by {}
    let row = choose|row: Cells| all_any(row) && #[trigger] rows_cover(out, r, p, row, filter);
    assert forall|ca: ColAsg| filter_ok(filter, #[trigger] sem(p.bdd, of_cols(p, ca), Map::<Sym, BDD>::empty()))
        implies exists|i: int| 0 <= i < out.len() && #[trigger] covers(out[i].0, ca) by {
        assert(covers(row, ca));
        assert(eval(r, of_cols(p, ca)) == sem(p.bdd, of_cols(p, ca), Map::<Sym, BDD>::empty()));
    }
    assert forall|i: int, ca: ColAsg| 0 <= i < out.len() && #[trigger] covers(out[i].0, ca)
        implies sem(p.bdd, of_cols(p, ca), Map::<Sym, BDD>::empty()) == (out[i].1 is True) by {
        assert(eval(r, of_cols(p, ca)) == sem(p.bdd, of_cols(p, ca), Map::<Sym, BDD>::empty()));
    }
}

// ---- every free variable leaf of the parsed tree is a Var token of the input (grammar property; what lets main() show that every node of the printed diagram has a column)

pub open spec fn has_var(ts: Toks, v: Sym) -> bool {
    exists|i: int| 0 <= i < ts.len() && #[trigger] ts[i] == SymbolicBDDToken::Var(v)
}

/// r is what remains of ts after some tokens were consumed
pub open spec fn is_suffix(r: Toks, ts: Toks) -> bool {
    exists|k: int| 0 <= k <= ts.len() && #[trigger] ts.skip(k) == r
}

pub proof fn lemma_suffix_skip(ts: Toks, k: int)
    requires 0 <= k <= ts.len()
    ensures is_suffix(ts.skip(k), ts)
{
    assert(ts.skip(k) == ts.skip(k));
}

pub proof fn lemma_suffix_trans(a: Toks, b: Toks, c: Toks)
    requires is_suffix(a, b), is_suffix(b, c)
    ensures is_suffix(a, c)
{
    let k1 = choose|k: int| 0 <= k <= b.len() && #[trigger] b.skip(k) == a;
    let k2 = choose|k: int| 0 <= k <= c.len() && #[trigger] c.skip(k) == b;
    assert(c.skip(k2 + k1) =~= c.skip(k2).skip(k1));
    assert(c.skip(k2 + k1) == a);
}

pub proof fn lemma_suffix_var(r: Toks, ts: Toks, v: Sym)
    requires is_suffix(r, ts), has_var(r, v)
    ensures has_var(ts, v)
{
    let k = choose|k: int| 0 <= k <= ts.len() && #[trigger] ts.skip(k) == r;
    let i = choose|i: int| 0 <= i < r.len() && #[trigger] r[i] == SymbolicBDDToken::Var(v);
    assert(ts[k + i] == r[i]);
}

pub proof fn lemma_g_vars(ts: Toks, acc: Seq<Sym>)
    requires p_vars(ts, acc) is Some
    ensures is_suffix(p_vars(ts, acc)->Some_0.1, ts)
    decreases ts.len()
{
    if head_is(ts, SymbolicBDDToken::Hash) {
        lemma_suffix_skip(ts, 0);
        assert(ts.skip(0) =~= ts);
    } else {
        let r = ts.skip(1);
        lemma_suffix_skip(ts, 1);
        if head_is(r, SymbolicBDDToken::Comma) {
            lemma_g_vars(r.skip(1), acc.push(ts[0]->Var_0));
            lemma_suffix_skip(r, 1);
            lemma_suffix_trans(r.skip(1), r, ts);
            lemma_suffix_trans(p_vars(ts, acc)->Some_0.1, r.skip(1), ts);
        }
    }
}

/// G for each nonterminal: the remaining tokens are a suffix, and a free variable leaf of a tree that `repr`esents the
/// parsed Ast is a Var token of the input
pub proof fn lemma_g_simple(ts: Toks, f: SymbolicBDD, v: Sym)
    requires p_simple(ts) is Some
    ensures is_suffix(p_simple(ts)->Some_0.1, ts), repr(f, p_simple(ts)->Some_0.0) && fv(f, v) ==> has_var(ts, v)
    decreases ts.len(), 2nat
{
    match ts[0] {
        SymbolicBDDToken::OpenParen => { lemma_g_paren(ts, f, v); }
        SymbolicBDDToken::OpenSquare => { lemma_g_countable(ts, f, v); }
        SymbolicBDDToken::False | SymbolicBDDToken::True | SymbolicBDDToken::Reference(_) => { lemma_suffix_skip(ts, 1); }
        SymbolicBDDToken::Var(w) => {
            lemma_suffix_skip(ts, 1);
            if repr(f, p_simple(ts)->Some_0.0) && fv(f, v) {
                assert(ts[0] == SymbolicBDDToken::Var(v));
            }
        }
        SymbolicBDDToken::Not => { lemma_g_negation(ts, f, v); }
        SymbolicBDDToken::Exists => { lemma_g_quant(QuantifierType::Exists, ts, f, v); }
        SymbolicBDDToken::Forall => { lemma_g_quant(QuantifierType::Forall, ts, f, v); }
        SymbolicBDDToken::GFP => { lemma_g_fixed(ts, true, f, v); }
        SymbolicBDDToken::LFP => { lemma_g_fixed(ts, false, f, v); }
        SymbolicBDDToken::If => { lemma_g_ite(ts, f, v); }
        _ => {}
    }
}

pub proof fn lemma_g_sub(ts: Toks, f: SymbolicBDD, v: Sym)
    requires p_sub(ts) is Some
    ensures is_suffix(p_sub(ts)->Some_0.1, ts), repr(f, p_sub(ts)->Some_0.0) && fv(f, v) ==> has_var(ts, v)
    decreases ts.len(), 3nat
{
    let (left, r) = p_simple(ts)->Some_0;
    if r.len() > 0 && binop_of(r[0]) is Some {
        let (right, r2) = p_sub(r.skip(1))->Some_0;
        lemma_g_simple(ts, f, v);
        lemma_g_sub(r.skip(1), f, v);
        lemma_suffix_skip(r, 1);
        lemma_suffix_trans(r.skip(1), r, ts);
        lemma_suffix_trans(r2, r.skip(1), ts);
        if repr(f, p_sub(ts)->Some_0.0) && fv(f, v) {
            let fl = *f->BinaryOp_1; let fr = *f->BinaryOp_2;
            if fv(fl, v) {
                lemma_g_simple(ts, fl, v);
            } else {
                lemma_g_sub(r.skip(1), fr, v);
                lemma_suffix_var(r.skip(1), ts, v);
            }
        }
    } else {
        lemma_g_simple(ts, f, v);
    }
}

pub proof fn lemma_g_paren(ts: Toks, f: SymbolicBDD, v: Sym)
    requires p_paren(ts) is Some
    ensures is_suffix(p_paren(ts)->Some_0.1, ts), repr(f, p_paren(ts)->Some_0.0) && fv(f, v) ==> has_var(ts, v)
    decreases ts.len(), 1nat
{
    let (g, r) = p_sub(ts.skip(1))->Some_0;
    lemma_g_sub(ts.skip(1), f, v);
    lemma_suffix_skip(ts, 1);
    lemma_suffix_skip(r, 1);
    lemma_suffix_trans(r, ts.skip(1), ts);
    lemma_suffix_trans(r.skip(1), r, ts);
    if repr(f, g) && fv(f, v) { lemma_suffix_var(ts.skip(1), ts, v); }
}

pub proof fn lemma_g_negation(ts: Toks, f: SymbolicBDD, v: Sym)
    requires p_negation(ts) is Some
    ensures is_suffix(p_negation(ts)->Some_0.1, ts), repr(f, p_negation(ts)->Some_0.0) && fv(f, v) ==> has_var(ts, v)
    decreases ts.len(), 1nat
{
    let (g, r) = p_simple(ts.skip(1))->Some_0;
    lemma_suffix_skip(ts, 1);
    lemma_g_simple(ts.skip(1), f, v);
    lemma_suffix_trans(r, ts.skip(1), ts);
    if repr(f, p_negation(ts)->Some_0.0) && fv(f, v) {
        let b = *f->Not_0;
        lemma_g_simple(ts.skip(1), b, v);
        lemma_suffix_var(ts.skip(1), ts, v);
    }
}

pub proof fn lemma_g_ite(ts: Toks, f: SymbolicBDD, v: Sym)
    requires p_ite(ts) is Some
    ensures is_suffix(p_ite(ts)->Some_0.1, ts), repr(f, p_ite(ts)->Some_0.0) && fv(f, v) ==> has_var(ts, v)
    decreases ts.len(), 1nat
{
    let t1 = ts.skip(1);
    let (c, r1) = p_sub(t1)->Some_0;
    let (t, r2) = p_sub(r1.skip(1))->Some_0;
    let (e, r3) = p_sub(r2.skip(1))->Some_0;
    lemma_suffix_skip(ts, 1);
    lemma_g_sub(t1, f, v);
    lemma_suffix_trans(r1, t1, ts);
    lemma_suffix_skip(r1, 1);
    lemma_suffix_trans(r1.skip(1), r1, ts);
    lemma_g_sub(r1.skip(1), f, v);
    lemma_suffix_trans(r2, r1.skip(1), ts);
    lemma_suffix_skip(r2, 1);
    lemma_suffix_trans(r2.skip(1), r2, ts);
    lemma_g_sub(r2.skip(1), f, v);
    lemma_suffix_trans(r3, r2.skip(1), ts);
    if repr(f, p_ite(ts)->Some_0.0) && fv(f, v) {
        let fc = *f->Ite_0; let ft = *f->Ite_1; let fe = *f->Ite_2;
        if fv(fc, v) { lemma_g_sub(t1, fc, v); lemma_suffix_var(t1, ts, v); }
        else if fv(ft, v) { lemma_g_sub(r1.skip(1), ft, v); lemma_suffix_var(r1.skip(1), ts, v); }
        else { lemma_g_sub(r2.skip(1), fe, v); lemma_suffix_var(r2.skip(1), ts, v); }
    }
}

pub proof fn lemma_g_quant(q: QuantifierType, ts: Toks, f: SymbolicBDD, v: Sym)
    requires p_quant(q, ts) is Some
    ensures is_suffix(p_quant(q, ts)->Some_0.1, ts), repr(f, p_quant(q, ts)->Some_0.0) && fv(f, v) ==> has_var(ts, v)
    decreases ts.len(), 1nat
{
    let t1 = ts.skip(1);
    let (vs, r) = p_vars(t1, Seq::empty())->Some_0;
    let (g, r2) = p_sub(r.skip(1))->Some_0;
    lemma_suffix_skip(ts, 1);
    lemma_g_vars(t1, Seq::empty());
    lemma_suffix_trans(r, t1, ts);
    lemma_suffix_skip(r, 1);
    lemma_suffix_trans(r.skip(1), r, ts);
    lemma_g_sub(r.skip(1), f, v);
    lemma_suffix_trans(r2, r.skip(1), ts);
    if repr(f, p_quant(q, ts)->Some_0.0) && fv(f, v) {
        let b = *f->Quantifier_2;
        lemma_g_sub(r.skip(1), b, v);
        lemma_suffix_var(r.skip(1), ts, v);
    }
}

pub proof fn lemma_g_fixed(ts: Toks, init: bool, f: SymbolicBDD, v: Sym)
    requires p_fixed(ts, init) is Some
    ensures is_suffix(p_fixed(ts, init)->Some_0.1, ts), repr(f, p_fixed(ts, init)->Some_0.0) && fv(f, v) ==> has_var(ts, v)
    decreases ts.len(), 1nat
{
    let (g, r) = p_sub(ts.skip(3))->Some_0;
    lemma_suffix_skip(ts, 3);
    lemma_g_sub(ts.skip(3), f, v);
    lemma_suffix_trans(r, ts.skip(3), ts);
    if repr(f, p_fixed(ts, init)->Some_0.0) && fv(f, v) {
        let t = *f->FixedPoint_2;
        lemma_g_sub(ts.skip(3), t, v);
        lemma_suffix_var(ts.skip(3), ts, v);
    }
}

/// list items: the first acc.len() results are acc itself; every later one was parsed from ts
pub proof fn lemma_g_items(ts: Toks, acc: Seq<Ast>, j: int, f: SymbolicBDD, v: Sym)
    requires p_items(ts, acc) is Some
    ensures
        is_suffix(p_items(ts, acc)->Some_0.1, ts),
        p_items(ts, acc)->Some_0.0.len() >= acc.len(),
        acc.len() <= j < p_items(ts, acc)->Some_0.0.len() && repr(f, p_items(ts, acc)->Some_0.0[j]) && fv(f, v) ==> has_var(ts, v),
    decreases ts.len(), 4nat
{
    if head_is(ts, SymbolicBDDToken::CloseSquare) {
        lemma_suffix_skip(ts, 0);
        assert(ts.skip(0) =~= ts);
    } else {
        let (g, r) = p_sub(ts)->Some_0;
        lemma_g_sub(ts, f, v);
        if head_is(r, SymbolicBDDToken::Comma) {
            let acc2 = acc.push(g);
            lemma_g_items(r.skip(1), acc2, j, f, v);
            lemma_g_items_prefix(r.skip(1), acc2, acc.len() as int);
            lemma_suffix_skip(r, 1);
            lemma_suffix_trans(r.skip(1), r, ts);
            lemma_suffix_trans(p_items(ts, acc)->Some_0.1, r.skip(1), ts);
            let res = p_items(ts, acc)->Some_0.0;
            if acc.len() <= j < res.len() && repr(f, res[j]) && fv(f, v) {
                if j == acc.len() {
                    assert(res[j] == g);
                } else {
                    lemma_suffix_var(r.skip(1), ts, v);
                }
            }
        } else {
            let res = acc.push(g);
            if acc.len() <= j < res.len() && repr(f, res[j]) && fv(f, v) {
                assert(res[j] == g);
            }
        }
    }
}

/// p_items keeps its accumulator as a prefix of the result
pub proof fn lemma_g_items_prefix(ts: Toks, acc: Seq<Ast>, k: int)
    requires p_items(ts, acc) is Some, 0 <= k < acc.len()
    ensures p_items(ts, acc)->Some_0.0.len() >= acc.len(), p_items(ts, acc)->Some_0.0[k] == acc[k]
    decreases ts.len()
{
    if head_is(ts, SymbolicBDDToken::CloseSquare) {
    } else {
        let (g, r) = p_sub(ts)->Some_0;
        if head_is(r, SymbolicBDDToken::Comma) {
            lemma_g_items_prefix(r.skip(1), acc.push(g), k);
        }
    }
}

pub proof fn lemma_g_list(ts: Toks, j: int, f: SymbolicBDD, v: Sym)
    requires p_list(ts) is Some
    ensures
        is_suffix(p_list(ts)->Some_0.1, ts),
        0 <= j < p_list(ts)->Some_0.0.len() && repr(f, p_list(ts)->Some_0.0[j]) && fv(f, v) ==> has_var(ts, v),
    decreases ts.len(), 0nat
{
    let (fs, r) = p_items(ts.skip(1), Seq::empty())->Some_0;
    lemma_suffix_skip(ts, 1);
    lemma_g_items(ts.skip(1), Seq::empty(), j, f, v);
    lemma_suffix_trans(r, ts.skip(1), ts);
    lemma_suffix_skip(r, 1);
    lemma_suffix_trans(r.skip(1), r, ts);
    if 0 <= j < fs.len() && repr(f, fs[j]) && fv(f, v) { lemma_suffix_var(ts.skip(1), ts, v); }
}

pub proof fn lemma_g_countable(ts: Toks, f: SymbolicBDD, v: Sym)
    requires p_countable(ts) is Some
    ensures is_suffix(p_countable(ts)->Some_0.1, ts), repr(f, p_countable(ts)->Some_0.0) && fv(f, v) ==> has_var(ts, v)
    decreases ts.len(), 1nat
{
    let (l, r) = p_list(ts)->Some_0;
    let r1 = r.skip(1);
    lemma_g_list(ts, 0, f, v);
    lemma_suffix_skip(r, 1);
    lemma_suffix_trans(r1, r, ts);
    if head_is(r1, SymbolicBDDToken::OpenSquare) {
        let (rl, r2) = p_list(r1)->Some_0;
        lemma_g_list(r1, 0, f, v);
        lemma_suffix_trans(r2, r1, ts);
        if repr(f, p_countable(ts)->Some_0.0) && fv(f, v) {
            let fl = f->CountableVariable_1; let fr = f->CountableVariable_2;
            if exists|i: int| 0 <= i < fl@.len() && fv(#[trigger] fl@[i], v) {
                let i = choose|i: int| 0 <= i < fl@.len() && fv(#[trigger] fl@[i], v);
                assert(repr_list(fl@, l));
                assert(repr(fl@[i], l[i]));
                lemma_g_list(ts, i, fl@[i], v);
            } else {
                let i = choose|i: int| 0 <= i < fr@.len() && fv(#[trigger] fr@[i], v);
                assert(repr_list(fr@, rl));
                assert(repr(fr@[i], rl[i]));
                lemma_g_list(r1, i, fr@[i], v);
                lemma_suffix_var(r1, ts, v);
            }
        }
    } else {
        lemma_suffix_skip(r1, 1);
        lemma_suffix_trans(r1.skip(1), r1, ts);
        if repr(f, p_countable(ts)->Some_0.0) && fv(f, v) {
            let bs = f->CountableConst_1;
            let i = choose|i: int| 0 <= i < bs@.len() && fv(#[trigger] bs@[i], v);
            assert(repr_list(bs@, l));
            assert(repr(bs@[i], l[i]));
            lemma_g_list(ts, i, bs@[i], v);
        }
    }
}

/// G: the tree the grammar assigns to a token sequence has no free variable leaf that is not a token
pub proof fn lemma_tree_vars_are_tokens(ts: Toks, f: SymbolicBDD, v: Sym)
    requires p_formula(ts) is Some, repr(f, p_formula(ts)->Some_0), fv(f, v)
    ensures has_var(ts, v)
{
    lemma_g_sub(ts, f, v);
}
