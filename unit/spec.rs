pub type Asg = spec_fn(Sym) -> bool;

/// truth value of diagram b under assignment a
pub open spec fn eval(b: BDD, a: Asg) -> bool
    decreases b
{
    match b {
        BDD::False => false,
        BDD::True => true,
        BDD::Choice(t, v, f) => if a(v) { eval(*t, a) } else { eval(*f, a) },
    }
}

pub open spec fn size(b: BDD) -> nat
    decreases b
{
    match b {
        BDD::False => 1,
        BDD::True => 1,
        BDD::Choice(t, v, f) => 1 + size(*t) + size(*f),
    }
}

/// ordered (every tested variable >= lo, strictly increasing along each path) and reduced (t != f at every node)
pub open spec fn robdd(b: BDD, lo: int) -> bool
    decreases b
{
    match b {
        BDD::False => true,
        BDD::True => true,
        BDD::Choice(t, v, f) => lo <= key(v) && robdd(*t, key(v) + 1) && robdd(*f, key(v) + 1) && *t != *f,
    }
}

pub open spec fn upd(a: Asg, v: Sym, x: bool) -> Asg {
    |w: Sym| if w == v { x } else { a(w) }
}

pub open spec fn sem_eq(x: BDD, y: BDD) -> bool {
    forall|a: Asg| eval(x, a) == eval(y, a)
}

pub proof fn lemma_weaken(b: BDD, lo: int, lo2: int)
    requires robdd(b, lo), lo2 <= lo
    ensures robdd(b, lo2)
{}

pub proof fn lemma_indep(b: BDD, lo: int, a: Asg, v: Sym, x: bool)
    requires robdd(b, lo), key(v) < lo
    ensures eval(b, upd(a, v, x)) == eval(b, a)
    decreases b
{
    if b is Choice {
        let t = *b->0; let f = *b->2;
        lemma_indep(t, key(b->1) + 1, a, v, x);
        lemma_indep(f, key(b->1) + 1, a, v, x);
    }
}

pub proof fn lemma_canon(x: BDD, y: BDD, lo: int)
    requires robdd(x, lo), robdd(y, lo), sem_eq(x, y)
    ensures x == y
    decreases size(x) + size(y), 1int
{
    if x is Choice && y is Choice {
        let t1 = *x->0; let v1 = x->1; let f1 = *x->2;
        let t2 = *y->0; let v2 = y->1; let f2 = *y->2;
        if v1 == v2 {
            assert forall|a: Asg| eval(t1, a) == eval(t2, a) by {
                lemma_indep(t1, key(v1) + 1, a, v1, true);
                lemma_indep(t2, key(v1) + 1, a, v1, true);
                assert(eval(x, upd(a, v1, true)) == eval(y, upd(a, v1, true)));
            }
            assert forall|a: Asg| eval(f1, a) == eval(f2, a) by {
                lemma_indep(f1, key(v1) + 1, a, v1, false);
                lemma_indep(f2, key(v1) + 1, a, v1, false);
                assert(eval(x, upd(a, v1, false)) == eval(y, upd(a, v1, false)));
            }
            lemma_canon(t1, t2, key(v1) + 1);
            lemma_canon(f1, f2, key(v1) + 1);
        } else if key(v1) < key(v2) {
            lemma_top_redundant(x, y);
        } else {
            assert(sem_eq(y, x));
            lemma_top_redundant(y, x);
        }
    } else if x is Choice {
        lemma_top_redundant(x, y);
    } else if y is Choice {
        assert(sem_eq(y, x));
        lemma_top_redundant(y, x);
    } else {
        let a0: Asg = |w: Sym| true;
        assert(eval(x, a0) == eval(y, a0));
    }
}

// x = Choice(t,v,f) reduced, y does not depend on v  ==> contradiction
pub proof fn lemma_top_redundant(x: BDD, y: BDD)
    requires
        x is Choice, robdd(x, key(x->1)), sem_eq(x, y),
        robdd(y, key(x->1) + 1),
    ensures false
    decreases size(x) + size(y), 0int
{
    let t = *x->0; let v = x->1; let f = *x->2;
    assert forall|a: Asg| eval(t, a) == eval(f, a) by {
        lemma_indep(t, key(v) + 1, a, v, true);
        lemma_indep(f, key(v) + 1, a, v, false);
        lemma_indep(y, key(v) + 1, a, v, true);
        lemma_indep(y, key(v) + 1, a, v, false);
        assert(eval(x, upd(a, v, true)) == eval(y, upd(a, v, true)));
        assert(eval(x, upd(a, v, false)) == eval(y, upd(a, v, false)));
    }
    assert(sem_eq(t, f));
    lemma_canon(t, f, key(v) + 1);
}
