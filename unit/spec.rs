pub type Asg = spec_fn(Sym) -> bool;

/// truth value of diagram b under assignment a
pub open spec fn eval(b: BDD, a: Asg) -> bool
    decreases b
{
    match b {
        BDD::False => false,
        BDD::True => true,
        BDD::Choice(t, v, f) => if a(v) { eval(*t, a) } else { eval(*f, a) },
    }
}

pub open spec fn size(b: BDD) -> nat
    decreases b
{
    match b {
        BDD::False => 1,
        BDD::True => 1,
        BDD::Choice(t, v, f) => 1 + size(*t) + size(*f),
    }
}

/// ordered (every tested variable >= lo, strictly increasing along each path) and reduced (t != f at every node)
pub open spec fn robdd(b: BDD, lo: int) -> bool
    decreases b
{
    match b {
        BDD::False => true,
        BDD::True => true,
        BDD::Choice(t, v, f) => lo <= key(v) && robdd(*t, key(v) + 1) && robdd(*f, key(v) + 1) && *t != *f,
    }
}

pub open spec fn upd(a: Asg, v: Sym, x: bool) -> Asg {
    |w: Sym| if w == v { x } else { a(w) }
}

pub open spec fn sem_eq(x: BDD, y: BDD) -> bool {
    forall|a: Asg| eval(x, a) == eval(y, a)
}

pub proof fn lemma_weaken(b: BDD, lo: int, lo2: int)
    requires robdd(b, lo), lo2 <= lo
    ensures robdd(b, lo2)
{}

pub proof fn lemma_indep(b: BDD, lo: int, a: Asg, v: Sym, x: bool)
    requires robdd(b, lo), key(v) < lo
    ensures eval(b, upd(a, v, x)) == eval(b, a)
    decreases b
{
    if b is Choice {
        let t = *b->0; let f = *b->2;
        lemma_indep(t, key(b->1) + 1, a, v, x);
        lemma_indep(f, key(b->1) + 1, a, v, x);
    }
}

pub proof fn lemma_canon(x: BDD, y: BDD, lo: int)
    requires robdd(x, lo), robdd(y, lo), sem_eq(x, y)
    ensures x == y
    decreases size(x) + size(y), 1int
{
    if x is Choice && y is Choice {
        let t1 = *x->0; let v1 = x->1; let f1 = *x->2;
        let t2 = *y->0; let v2 = y->1; let f2 = *y->2;
        if v1 == v2 {
            assert forall|a: Asg| eval(t1, a) == eval(t2, a) by {
                lemma_indep(t1, key(v1) + 1, a, v1, true);
                lemma_indep(t2, key(v1) + 1, a, v1, true);
                assert(eval(x, upd(a, v1, true)) == eval(y, upd(a, v1, true)));
            }
            assert forall|a: Asg| eval(f1, a) == eval(f2, a) by {
                lemma_indep(f1, key(v1) + 1, a, v1, false);
                lemma_indep(f2, key(v1) + 1, a, v1, false);
                assert(eval(x, upd(a, v1, false)) == eval(y, upd(a, v1, false)));
            }
            lemma_canon(t1, t2, key(v1) + 1);
            lemma_canon(f1, f2, key(v1) + 1);
        } else if key(v1) < key(v2) {
            lemma_top_redundant(x, y);
        } else {
            assert(sem_eq(y, x));
            lemma_top_redundant(y, x);
        }
    } else if x is Choice {
        lemma_top_redundant(x, y);
    } else if y is Choice {
        assert(sem_eq(y, x));
        lemma_top_redundant(y, x);
    } else {
        let a0: Asg = |w: Sym| true;
        assert(eval(x, a0) == eval(y, a0));
    }
}

// x = Choice(t,v,f) reduced, y does not depend on v  ==> contradiction
pub proof fn lemma_top_redundant(x: BDD, y: BDD)
    requires
        x is Choice, robdd(x, key(x->1)), sem_eq(x, y),
        robdd(y, key(x->1) + 1),
    ensures false
    decreases size(x) + size(y), 0int
{
    let t = *x->0; let v = x->1; let f = *x->2;
    assert forall|a: Asg| eval(t, a) == eval(f, a) by {
        lemma_indep(t, key(v) + 1, a, v, true);
        lemma_indep(f, key(v) + 1, a, v, false);
        lemma_indep(y, key(v) + 1, a, v, true);
        lemma_indep(y, key(v) + 1, a, v, false);
        assert(eval(x, upd(a, v, true)) == eval(y, upd(a, v, true)));
        assert(eval(x, upd(a, v, false)) == eval(y, upd(a, v, false)));
    }
    assert(sem_eq(t, f));
    lemma_canon(t, f, key(v) + 1);
}

// ---------------------------------------------------------------- counting (C05)

/// number of diagrams in bs that are true under a
pub open spec fn count(bs: Seq<Rc<BDD>>, a: Asg) -> int
    decreases bs.len()
{
    if bs.len() == 0 { 0 } else { (if eval(*bs[0], a) { 1int } else { 0int }) + count(bs.subrange(1, bs.len() as int), a) }
}

pub open spec fn all_robdd(bs: Seq<Rc<BDD>>, lo: int) -> bool {
    forall|i: int| 0 <= i < bs.len() ==> robdd(*#[trigger] bs[i], lo)
}

pub proof fn lemma_count_bounds(bs: Seq<Rc<BDD>>, a: Asg)
    ensures 0 <= count(bs, a) <= bs.len()
    decreases bs.len()
{
    if bs.len() > 0 { lemma_count_bounds(bs.subrange(1, bs.len() as int), a); }
}

// [A16] a slice of Rc pointers occupies at most isize::MAX bytes (std guarantee for every allocation)
#[verifier::external_body]
pub proof fn axiom_slice_len(s: &[Rc<BDD>])
    ensures s@.len() <= 0x0fff_ffff_ffff_ffff
{}

/// the comparator argument of cmp_count_compare behaves as "at least k of l" / "at most k of l"
pub open spec fn cmp_is_aln<F: Fn(&BDDEnv, &[Rc<BDD>], i64) -> Rc<BDD>>(cmp: F) -> bool {
    forall|e: &BDDEnv, l: &[Rc<BDD>], k: i64, res: Rc<BDD>| #[trigger] cmp.ensures((e, l, k), res)
        ==> forall|s: Asg| #[trigger] eval(*res, s) == (count(l@, s) >= k)
}
pub open spec fn cmp_is_amn<F: Fn(&BDDEnv, &[Rc<BDD>], i64) -> Rc<BDD>>(cmp: F) -> bool {
    forall|e: &BDDEnv, l: &[Rc<BDD>], k: i64, res: Rc<BDD>| #[trigger] cmp.ensures((e, l, k), res)
        ==> forall|s: Asg| #[trigger] eval(*res, s) == (count(l@, s) <= k)
}
pub open spec fn cmp_keeps_robdd<F: Fn(&BDDEnv, &[Rc<BDD>], i64) -> Rc<BDD>>(cmp: F) -> bool {
    forall|e: &BDDEnv, l: &[Rc<BDD>], k: i64, res: Rc<BDD>| #[trigger] cmp.ensures((e, l, k), res)
        ==> forall|lo: int| all_robdd(l@, lo) ==> #[trigger] robdd(*res, lo)
}

// ---------------------------------------------------------------- quantifiers (C04)

/// exists over the list vs, outermost variable first (the recursion of BDDEnv::exists)
pub open spec fn exq(vs: Seq<Sym>, b: BDD, a: Asg) -> bool
    decreases vs.len()
{
    if vs.len() == 0 { eval(b, a) } else {
        exq(vs.subrange(1, vs.len() as int), b, upd(a, vs[0], true))
        || exq(vs.subrange(1, vs.len() as int), b, upd(a, vs[0], false))
    }
}

pub open spec fn allq(vs: Seq<Sym>, b: BDD, a: Asg) -> bool
    decreases vs.len()
{
    if vs.len() == 0 { eval(b, a) } else {
        allq(vs.subrange(1, vs.len() as int), b, upd(a, vs[0], true))
        && allq(vs.subrange(1, vs.len() as int), b, upd(a, vs[0], false))
    }
}

/// two assignments agree on every variable outside vs
pub open spec fn agree_outside(a: Asg, t: Asg, vs: Seq<Sym>) -> bool {
    forall|w: Sym| !vs.contains(w) ==> #[trigger] t(w) == a(w)
}

pub proof fn lemma_exq_dual(vs: Seq<Sym>, b: BDD, nb: BDD, a: Asg)
    requires forall|t: Asg| #[trigger] eval(nb, t) == !eval(b, t)
    ensures exq(vs, nb, a) == !allq(vs, b, a)
    decreases vs.len()
{
    if vs.len() > 0 {
        lemma_exq_dual(vs.subrange(1, vs.len() as int), b, nb, upd(a, vs[0], true));
        lemma_exq_dual(vs.subrange(1, vs.len() as int), b, nb, upd(a, vs[0], false));
    }
}

// ---------------------------------------------------------------- validity / satisfiability corollaries of canonicity (C02)

pub open spec fn valid(b: BDD) -> bool { forall|a: Asg| eval(b, a) }
pub open spec fn unsat(b: BDD) -> bool { forall|a: Asg| !eval(b, a) }

/// a valid ROBDD is literally the true leaf, an unsatisfiable one literally the false leaf
pub proof fn lemma_valid_true(b: BDD, lo: int)
    requires robdd(b, lo)
    ensures (b == BDD::True) == valid(b), (b == BDD::False) == unsat(b)
{
    if valid(b) { assert(sem_eq(b, BDD::True)); lemma_canon(b, BDD::True, lo); }
    if unsat(b) { assert(sem_eq(b, BDD::False)); lemma_canon(b, BDD::False, lo); }
    let a0: Asg = |w: Sym| true;
    if b == BDD::True { assert(eval(b, a0)); }
    if b == BDD::False { assert(!eval(b, a0)); }
}

/// a ROBDD other than the false leaf has a satisfying assignment (and dually)
pub proof fn lemma_nonfalse_sat(b: BDD, lo: int) -> (a: Asg)
    requires robdd(b, lo), b != BDD::False
    ensures eval(b, a)
{
    lemma_valid_true(b, lo);
    choose|a: Asg| eval(b, a)
}

/// variable w is tested somewhere in b
pub open spec fn occurs(b: BDD, w: Sym) -> bool
    decreases b
{
    match b {
        BDD::False => false,
        BDD::True => false,
        BDD::Choice(t, v, f) => v == w || occurs(*t, w) || occurs(*f, w),
    }
}

/// b is a single path to the true leaf: a conjunction of literals
pub open spec fn cube(b: BDD) -> bool
    decreases b
{
    match b {
        BDD::False => false,
        BDD::True => true,
        BDD::Choice(t, v, f) => (*f == BDD::False && cube(*t)) || (*t == BDD::False && cube(*f)),
    }
}

/// the ROBDD of (lhs and v), v below every variable of lhs, is the node (lhs, v, False)
pub proof fn lemma_and_var_cube(r: BDD, lhs: BDD, v: Sym)
    requires robdd(r, key(v)), robdd(lhs, key(v) + 1), lhs != BDD::False,
             forall|s: Asg| #[trigger] eval(r, s) == (eval(lhs, s) && s(v))
    ensures r is Choice, r->1 == v, *r->0 == lhs, *r->2 == BDD::False
{
    let s0 = lemma_nonfalse_sat(lhs, key(v) + 1);
    let s1 = upd(s0, v, true);
    let s2 = upd(s0, v, false);
    lemma_indep(lhs, key(v) + 1, s0, v, true);
    assert(eval(r, s1));
    assert(!eval(r, s2));
    assert(r is Choice);
    let rt = *r->0; let rv = r->1; let rf = *r->2;
    if rv != v {
        lemma_indep(r, key(v) + 1, s0, v, true);
        lemma_indep(r, key(v) + 1, s0, v, false);
        assert(false);
    }
    assert forall|s: Asg| eval(rt, s) == eval(lhs, s) by {
        lemma_indep(rt, key(v) + 1, s, v, true);
        lemma_indep(lhs, key(v) + 1, s, v, true);
        assert(eval(r, upd(s, v, true)) == eval(rt, upd(s, v, true)));
    }
    assert(sem_eq(rt, lhs));
    lemma_canon(rt, lhs, key(v) + 1);
    assert forall|s: Asg| eval(rf, s) == eval(BDD::False, s) by {
        lemma_indep(rf, key(v) + 1, s, v, false);
        assert(eval(r, upd(s, v, false)) == eval(rf, upd(s, v, false)));
    }
    assert(sem_eq(rf, BDD::False));
    lemma_canon(rf, BDD::False, key(v) + 1);
}

/// the ROBDD of (not v and rhs) is the node (False, v, rhs)
pub proof fn lemma_and_nvar_cube(r: BDD, rhs: BDD, v: Sym)
    requires robdd(r, key(v)), robdd(rhs, key(v) + 1), rhs != BDD::False,
             forall|s: Asg| #[trigger] eval(r, s) == (!s(v) && eval(rhs, s))
    ensures r is Choice, r->1 == v, *r->0 == BDD::False, *r->2 == rhs
{
    let s0 = lemma_nonfalse_sat(rhs, key(v) + 1);
    let s1 = upd(s0, v, true);
    let s2 = upd(s0, v, false);
    lemma_indep(rhs, key(v) + 1, s0, v, false);
    assert(!eval(r, s1));
    assert(eval(r, s2));
    assert(r is Choice);
    let rt = *r->0; let rv = r->1; let rf = *r->2;
    if rv != v {
        lemma_indep(r, key(v) + 1, s0, v, true);
        lemma_indep(r, key(v) + 1, s0, v, false);
        assert(false);
    }
    assert forall|s: Asg| eval(rf, s) == eval(rhs, s) by {
        lemma_indep(rf, key(v) + 1, s, v, false);
        lemma_indep(rhs, key(v) + 1, s, v, false);
        assert(eval(r, upd(s, v, false)) == eval(rf, upd(s, v, false)));
    }
    assert(sem_eq(rf, rhs));
    lemma_canon(rf, rhs, key(v) + 1);
    assert forall|s: Asg| eval(rt, s) == eval(BDD::False, s) by {
        lemma_indep(rt, key(v) + 1, s, v, true);
        assert(eval(r, upd(s, v, true)) == eval(rt, upd(s, v, true)));
    }
    assert(sem_eq(rt, BDD::False));
    lemma_canon(rt, BDD::False, key(v) + 1);
}

/// satisfiability of a node from satisfiability of a child (children do not test the node's variable)
pub proof fn lemma_sat_child(b: BDD, lo: int)
    requires b is Choice, robdd(b, lo)
    ensures unsat(b) == (unsat(*b->0) && unsat(*b->2))
{
    let t = *b->0; let v = b->1; let f = *b->2;
    if unsat(t) && unsat(f) {
        assert forall|a: Asg| !eval(b, a) by { assert(!eval(t, a)); assert(!eval(f, a)); }
    }
    if !unsat(t) {
        let s = choose|s: Asg| eval(t, s);
        lemma_indep(t, key(v) + 1, s, v, true);
        assert(eval(b, upd(s, v, true)));
    }
    if !unsat(f) {
        let s = choose|s: Asg| eval(f, s);
        lemma_indep(f, key(v) + 1, s, v, false);
        assert(eval(b, upd(s, v, false)));
    }
}

// ---------------------------------------------------------------- fixed-point iteration (C06)

/// tr is the sequence a, t(a), t(t(a)), .. up to r, every step a real call of t that changed the value
pub open spec fn is_fp_trace<F: Fn(Rc<BDD>) -> Rc<BDD>>(t: F, a: Rc<BDD>, tr: Seq<Rc<BDD>>, r: Rc<BDD>) -> bool {
    tr.len() > 0 && tr[0] == a && tr[tr.len() - 1] == r
    && forall|i: int| 0 <= i < tr.len() - 1 ==> t.ensures((#[trigger] tr[i],), tr[i + 1]) && *tr[i + 1] != *tr[i]
}
